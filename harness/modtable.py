"""Table of library-module configurations used by C04 (linearity / accumulation / purity), C03
(history independence) and the numerical parts of C01.

Every entry builds a *fresh* module with the same inputs each time it is called (deterministic for a
given seed), so that reference contributions can be measured on one instance and histories replayed
on another.
"""
import numpy as np
import scipy.sparse as sps


class Entry:
    def __init__(self, name, make, tol=1e-9, tags=()):
        self.name = name
        self.make = make      # make() -> (module, [input signals], [output signals])
        self.tol = tol
        self.tags = set(tags)


def _rng(name, seed):
    import zlib
    return np.random.default_rng(zlib.crc32(name.encode()) + 7919 * seed)


def entries(seed=0):
    import pymoto as pym
    E = []

    def add(name, fn, tol=1e-9, tags=()):
        def make(name=name, fn=fn):
            r = _rng(name, seed)
            return fn(r)
        E.append(Entry(name, make, tol, tags))

    dom2 = pym.DomainDefinition(3, 2, unitx=1.0, unity=0.5, unitz=2.0)
    dom2u = pym.DomainDefinition(3, 3)
    dom3 = pym.DomainDefinition(2, 2, 2, unitx=1.0, unity=0.5, unitz=2.0)
    dom3b = pym.DomainDefinition(3, 2, 2)

    def S(tag, val):
        return pym.Signal(tag, state=val)

    def mod1(cls, x, *args, **kw):
        s = S("x", x)
        m = cls(s, *args, **kw)
        return m, [s], m.sig_out

    # ---- filters ---------------------------------------------------------------------------
    add("FilterConv/radius1.5/sym/2D", lambda r: mod1(pym.FilterConv, r.random(dom2.nel), domain=dom2, radius=1.5))
    add("FilterConv/weights/mixed/2D", lambda r: mod1(pym.FilterConv, r.random(dom2u.nel), domain=dom2u,
                                                     weights=_rng("w2", 0).random((3, 3)), xmin_bc="edge", xmax_bc="wrap",
                                                     ymin_bc=0.5, ymax_bc="symmetric"))
    add("FilterConv/weights/wrapwrap/2D", lambda r: mod1(pym.FilterConv, r.random(dom2u.nel), domain=dom2u,
                                                        weights=_rng("w3", 0).random((3, 1)), xmin_bc="wrap", xmax_bc="wrap"))
    add("FilterConv/weights/3D", lambda r: mod1(pym.FilterConv, r.random(dom3b.nel), domain=dom3b,
                                               weights=_rng("w4", 0).random((3, 1, 3)), xmin_bc="edge", zmax_bc=1.0, zmin_bc="wrap"))
    add("FilterConv/radius/abs/3D", lambda r: mod1(pym.FilterConv, r.random(dom3.nel), domain=dom3, radius=1.2, relative_units=False))
    add("DensityFilter/2D", lambda r: mod1(pym.DensityFilter, r.random(dom2u.nel), domain=dom2u, radius=1.8))
    add("DensityFilter/nonpadding/2D", lambda r: mod1(pym.DensityFilter, r.random(dom2u.nel), domain=dom2u, radius=1.5,
                                                     nonpadding=np.array([0, 1, 2])))
    add("DensityFilter/3D", lambda r: mod1(pym.DensityFilter, r.random(dom3.nel), domain=dom3, radius=1.5))
    for d, dname in (([0, 1], "+y"), ([-1, 0], "-x"), ("x", "strx")):
        add("OverhangFilter/2D/%s" % dname, lambda r, d=d: mod1(pym.OverhangFilter, 0.1 + 0.8 * r.random(dom2u.nel), domain=dom2u, direction=d),
            tol=1e-8, tags=("overhang",))
    add("OverhangFilter/3D/ns5/-z", lambda r: mod1(pym.OverhangFilter, 0.1 + 0.8 * r.random(dom3b.nel), domain=dom3b, direction=[0, 0, -1]),
        tol=1e-8, tags=("overhang",))
    add("OverhangFilter/3D/ns9/+x", lambda r: mod1(pym.OverhangFilter, 0.1 + 0.8 * r.random(dom3b.nel), domain=dom3b, direction=[1, 0, 0], nsampling=9),
        tol=1e-8, tags=("overhang",))

    # ---- assembly --------------------------------------------------------------------------
    def asm_general(r, dom, ndof, bc, const, mt=None, seedkind="dense"):
        nd = dom.elemnodes * ndof
        Ke = _rng("Ke%d" % nd, 0).random((nd, nd))
        kw = {}
        if bc is not None:
            kw["bc"] = np.array(bc)
            kw["bcdiagval"] = 2.5
        if const:
            n = ndof * dom.nnodes
            kw["add_constant"] = sps.csc_matrix(_rng("const", 0).random((n, n)) * (_rng("constm", 0).random((n, n)) < 0.2))
        if mt is not None:
            kw["matrix_type"] = mt
        return mod1(pym.AssembleGeneral, 0.2 + r.random(dom.nel), domain=dom, element_matrix=Ke, **kw)

    add("AssembleGeneral/2D/1dof", lambda r: asm_general(r, dom2, 1, None, False), tags=("matrix_out",))
    add("AssembleGeneral/2D/2dof/bc/const", lambda r: asm_general(r, dom2, 2, [0, 1, 7], True), tags=("matrix_out",))
    add("AssembleGeneral/3D/1dof/bc/csr", lambda r: asm_general(r, dom3, 1, [3, 4], False, sps.csr_matrix), tags=("matrix_out",))
    add("AssembleStiffness/2D/bc", lambda r: mod1(pym.AssembleStiffness, 0.2 + r.random(dom2.nel), domain=dom2, bc=np.array([0, 1, 2]),
                                                 e_modulus=2.0, poisson_ratio=0.25, plane="stress"), tags=("matrix_out",))
    add("AssembleStiffness/3D", lambda r: mod1(pym.AssembleStiffness, 0.2 + r.random(dom3.nel), domain=dom3), tags=("matrix_out",))
    add("AssembleMass/2D/ndof2", lambda r: mod1(pym.AssembleMass, 0.2 + r.random(dom2.nel), domain=dom2, ndof=2, material_property=3.0,
                                                bc=np.array([4, 5])), tags=("matrix_out",))
    add("AssemblePoisson/3D", lambda r: mod1(pym.AssemblePoisson, 0.2 + r.random(dom3.nel), domain=dom3, material_property=2.0), tags=("matrix_out",))

    # ---- element operators -----------------------------------------------------------------
    add("ElementOperation/2D/nodes->rep2dof", lambda r: mod1(pym.ElementOperation, r.random(2 * dom2.nnodes), domain=dom2,
                                                            element_matrix=_rng("eo1", 0).random(4)))
    add("ElementOperation/2D/k x dofs", lambda r: mod1(pym.ElementOperation, r.random(2 * dom2.nnodes), domain=dom2,
                                                       element_matrix=_rng("eo2", 0).random((3, 8))))
    add("ElementOperation/3D/k x l x nodes", lambda r: mod1(pym.ElementOperation, r.random(dom3.nnodes), domain=dom3,
                                                            element_matrix=_rng("eo3", 0).random((2, 3, 8))))
    add("Strain/2D/voigt", lambda r: mod1(pym.Strain, r.random(2 * dom2.nnodes), domain=dom2, voigt=True))
    add("Strain/3D/novoigt", lambda r: mod1(pym.Strain, r.random(3 * dom3.nnodes), domain=dom3, voigt=False))
    add("Stress/2D", lambda r: mod1(pym.Stress, r.random(2 * dom2.nnodes), domain=dom2, e_modulus=2.0, poisson_ratio=0.25, plane="stress"))
    add("Stress/3D", lambda r: mod1(pym.Stress, r.random(3 * dom3.nnodes), domain=dom3))
    add("ElementAverage/2D/2dof", lambda r: mod1(pym.ElementAverage, r.random(2 * dom2.nnodes), domain=dom2))
    add("ElementAverage/3D/1dof", lambda r: mod1(pym.ElementAverage, r.random(dom3.nnodes), domain=dom3))
    add("NodalOperation/2D", lambda r: mod1(pym.NodalOperation, r.random(dom2.nel), domain=dom2, element_matrix=_rng("no1", 0).random(8)))
    add("NodalOperation/3D/k", lambda r: mod1(pym.NodalOperation, r.random((2, dom3.nel)), domain=dom3, element_matrix=_rng("no2", 0).random((2, 8))))
    add("ThermoMechanical/2D", lambda r: mod1(pym.ThermoMechanical, r.random(dom2.nel), domain=dom2, e_modulus=2.0, poisson_ratio=0.25, alpha=0.5, plane="stress"))
    add("ThermoMechanical/3D", lambda r: mod1(pym.ThermoMechanical, r.random(dom3.nel), domain=dom3, alpha=0.5))

    # ---- generic ---------------------------------------------------------------------------
    def einsum(expr, shapes, cplx=()):
        def fn(r):
            sigs = []
            for i, sh in enumerate(shapes):
                v = r.random(sh) - 0.3
                if i in cplx:
                    v = v + 1j * (r.random(sh) - 0.4)
                sigs.append(S("a%d" % i, v))
            m = pym.EinSum(sigs, expression=expr)
            return m, sigs, m.sig_out
        return fn
    add("EinSum/i,i->", einsum("i,i->", [(4,), (4,)]))
    add("EinSum/ij,j->i", einsum("ij,j->i", [(3, 4), (4,)]))
    add("EinSum/i,ij,j->", einsum("i,ij,j->", [(3,), (3, 3), (3,)]))
    add("EinSum/ii->", einsum("ii->", [(3, 3)]))
    add("EinSum/ij->", einsum("ij->", [(2, 3)]))
    add("EinSum/ij,jk->ik/complex", einsum("ij,jk->ik", [(2, 3), (3, 2)], cplx=(0, 1)))
    add("EinSum/i,i->i/mixed", einsum("i,i->i", [(4,), (4,)], cplx=(1,)))

    def concat(r):
        sigs = [S("a", r.random(3)), S("b", r.random(2)), S("c", float(r.random()))]
        m = pym.ConcatSignal(sigs)
        return m, sigs, m.sig_out
    add("ConcatSignal/vec,vec,scalar", concat)

    # ---- complex ---------------------------------------------------------------------------
    def cmod(cls, nin, cplx_in):
        def fn(r):
            sigs = []
            for i in range(nin):
                v = r.random(3) - 0.4
                if cplx_in:
                    v = v + 1j * (r.random(3) + 0.2)
                sigs.append(S("z%d" % i, v))
            m = cls(sigs)
            return m, sigs, m.sig_out
        return fn
    add("MakeComplex", cmod(pym.MakeComplex, 2, False))
    add("RealPart", cmod(pym.RealPart, 1, True))
    add("ImagPart", cmod(pym.ImagPart, 1, True))
    add("ComplexNorm", cmod(pym.ComplexNorm, 1, True))

    # ---- linear algebra --------------------------------------------------------------------
    def spd(r, n):
        M = r.random((n, n)) - 0.5
        return M @ M.T + n * np.eye(n)

    def linsolve(kind, nrhs=None, cplx_rhs=False, solver=None):
        def fn(r):
            n = 5
            if kind == "dense_general":
                A = r.random((n, n)) + n * np.eye(n)
            elif kind == "dense_sym":
                A = spd(r, n)
            elif kind == "dense_complex":
                A = r.random((n, n)) + 1j * r.random((n, n)) + n * np.eye(n)
            elif kind == "dense_complex_sym":
                A = r.random((n, n)) + 1j * r.random((n, n))
                A = A + A.T + 2 * n * np.eye(n)
            elif kind == "dense_hermitian":
                A = r.random((n, n)) + 1j * r.random((n, n))
                A = A + A.conj().T + 2 * n * np.eye(n)
            elif kind == "sparse_spd":
                A = sps.csc_matrix(spd(r, n) * (np.abs(np.subtract.outer(range(n), range(n))) < 2))
            elif kind == "sparse_general":
                A = sps.csc_matrix((r.random((n, n)) + n * np.eye(n)) * (np.abs(np.subtract.outer(range(n), range(n))) < 3))
            elif kind == "sparse_complex_sym":
                M = (r.random((n, n)) + 1j * r.random((n, n))) * (np.abs(np.subtract.outer(range(n), range(n))) < 2)
                A = sps.csc_matrix(M + M.T + 2 * n * np.eye(n))
            shape = (n,) if nrhs is None else (n, nrhs)
            b = r.random(shape) - 0.5
            if cplx_rhs:
                b = b + 1j * (r.random(shape) - 0.5)
            sA, sb = S("A", A), S("b", b)
            kw = {}
            if solver == "cg":
                kw["solver"] = pym.solvers.CG(tol=1e-12)
            m = pym.LinSolve([sA, sb], **kw)
            return m, [sA, sb], m.sig_out
        return fn
    add("LinSolve/dense_general", linsolve("dense_general"), tol=1e-8, tags=("linsolve",))
    add("LinSolve/dense_sym/multirhs", linsolve("dense_sym", nrhs=2), tol=1e-8, tags=("linsolve",))
    add("LinSolve/dense_complex/complex_rhs", linsolve("dense_complex", cplx_rhs=True), tol=1e-8, tags=("linsolve",))
    add("LinSolve/dense_complex_sym", linsolve("dense_complex_sym", cplx_rhs=True), tol=1e-8, tags=("linsolve",))
    add("LinSolve/dense_hermitian/multirhs", linsolve("dense_hermitian", nrhs=2, cplx_rhs=True), tol=1e-8, tags=("linsolve",))
    add("LinSolve/dense_general/complex_rhs", linsolve("dense_general", cplx_rhs=True), tol=1e-8, tags=("linsolve",))
    add("LinSolve/sparse_spd", linsolve("sparse_spd"), tol=1e-8, tags=("linsolve",))
    add("LinSolve/sparse_general/multirhs", linsolve("sparse_general", nrhs=2), tol=1e-8, tags=("linsolve",))
    add("LinSolve/sparse_complex_sym", linsolve("sparse_complex_sym", cplx_rhs=True), tol=1e-8, tags=("linsolve",))
    add("LinSolve/sparse_spd/cg", linsolve("sparse_spd", solver="cg"), tol=1e-6, tags=("linsolve", "iterative"))

    def inverse(cplx):
        def fn(r):
            A = r.random((4, 4)) + 4 * np.eye(4)
            if cplx:
                A = A + 1j * r.random((4, 4))
            return mod1(pym.Inverse, A)
        return fn
    add("Inverse/real", inverse(False), tol=1e-8)
    add("Inverse/complex", inverse(True), tol=1e-8)

    def soe(nrhs):
        def fn(r):
            n = 6
            A = sps.csc_matrix(spd(r, n))
            f = np.array([0, 2, 3, 5])
            p = np.array([1, 4])
            sh_f = (len(f),) if nrhs is None else (len(f), nrhs)
            sh_p = (len(p),) if nrhs is None else (len(p), nrhs)
            sA, sb, sx = S("A", A), S("bf", r.random(sh_f)), S("xp", r.random(sh_p))
            m = pym.SystemOfEquations([sA, sb, sx], free=f, prescribed=p)
            return m, [sA, sb, sx], m.sig_out
        return fn
    def soe_nonsym(r):
        n = 6
        A = sps.csc_matrix(r.random((n, n)) + n * np.eye(n))
        f = np.array([0, 2, 3, 5])
        p_ = np.array([1, 4])
        sA, sb, sx = S("A", A), S("bf", r.random((len(f), 2))), S("xp", r.random((len(p_), 2)))
        m = pym.SystemOfEquations([sA, sb, sx], free=f, prescribed=p_)
        return m, [sA, sb, sx], m.sig_out
    add("SystemOfEquations/sparse_nonsym/multirhs", soe_nonsym, tol=1e-8, tags=("linsolve",))
    add("SystemOfEquations/sparse", soe(None), tol=1e-8, tags=("linsolve",))
    add("SystemOfEquations/sparse/multirhs", soe(2), tol=1e-8, tags=("linsolve",))

    def statcond(r):
        n = 6
        A = sps.csc_matrix(spd(r, n))
        sA = S("A", A)
        m = pym.StaticCondensation(sA, main=np.array([0, 3]), free=np.array([1, 2, 5]))
        return m, [sA], m.sig_out
    add("StaticCondensation/sparse", statcond, tol=1e-8, tags=("linsolve",))

    def statcond_cs(r):
        n = 5
        M = r.random((n, n)) + 1j * r.random((n, n))
        A = sps.csc_matrix(M + M.T + 2 * n * np.eye(n))
        sA = S("A", A)
        m = pym.StaticCondensation(sA, main=np.array([1, 3]), free=np.array([0, 2, 4]))
        return m, [sA], m.sig_out
    add("StaticCondensation/sparse_complex_sym", statcond_cs, tol=1e-8, tags=("linsolve",))

    def statcond_ns(r):
        n = 5
        A = sps.csc_matrix(r.random((n, n)) + n * np.eye(n))
        sA = S("A", A)
        m = pym.StaticCondensation(sA, main=np.array([1, 3]), free=np.array([0, 2]))
        return m, [sA], m.sig_out
    add("StaticCondensation/sparse_nonsym", statcond_ns, tol=1e-8, tags=("linsolve",))

    def statcond_herm(sparse):
        def fn(r):
            n = 5
            M = r.random((n, n)) + 1j * r.random((n, n))
            A = M + M.conj().T + 2 * n * np.eye(n)           # complex Hermitian, not symmetric
            sA = S("A", sps.csc_matrix(A) if sparse else A)
            m = pym.StaticCondensation(sA, main=np.array([1, 3]), free=np.array([0, 2, 4]))
            return m, [sA], m.sig_out
        return fn
    add("StaticCondensation/sparse_hermitian", statcond_herm(True), tol=1e-8, tags=("linsolve",))
    add("StaticCondensation/dense_hermitian", statcond_herm(False), tol=1e-8, tags=("linsolve",))

    def statcond_symff(r):
        n = 6
        A = r.random((n, n)) + n * np.eye(n)
        f = np.array([0, 2, 5])
        A[np.ix_(f, f)] = 0.5 * (A[np.ix_(f, f)] + A[np.ix_(f, f)].T)     # symmetric free-free block, non-symmetric coupling blocks
        sA = S("A", sps.csc_matrix(A))
        m = pym.StaticCondensation(sA, main=np.array([1, 3]), free=f)
        return m, [sA], m.sig_out
    add("StaticCondensation/sparse_symmetric_free_block", statcond_symff, tol=1e-8, tags=("linsolve",))

    def eig(kind):
        def fn(r):
            n = 5
            M = r.random((n, n))
            A = M + M.T + np.diag(np.arange(n) * 2.0)
            B = spd(r, n) / n
            if kind == "dense_sym":
                sigs = [S("A", A)]
                kw = {}
            elif kind == "dense_gen":
                sigs = [S("A", A), S("B", B)]
                kw = {}
            elif kind == "dense_nonsym":
                sigs = [S("A", np.diag(np.arange(1, n + 1) * 1.0) + 0.1 * M)]
                kw = {}
            elif kind == "sparse_gen":
                n2 = 8
                M2 = r.random((n2, n2)) * (np.abs(np.subtract.outer(range(n2), range(n2))) < 2)
                A2 = M2 + M2.T + np.diag(np.arange(n2) * 2.0 + 3)
                B2 = np.diag(1.0 + r.random(n2))
                sigs = [S("A", sps.csc_matrix(A2)), S("B", sps.csc_matrix(B2))]
                kw = dict(nmodes=3, sigma=0.5, hermitian=True)
            elif kind == "sparse_noshift":
                n2 = 8
                M2 = r.random((n2, n2)) * (np.abs(np.subtract.outer(range(n2), range(n2))) < 2)
                A2 = M2 + M2.T + np.diag(np.arange(n2) * 2.0 + 4)      # positive definite: the default shift 0 is below the spectrum
                sigs = [S("A", sps.csc_matrix(A2))]
                kw = dict(nmodes=3, hermitian=True)
            m = pym.EigenSolve(sigs, **kw)
            return m, sigs, m.sig_out
        return fn
    add("EigenSolve/dense_sym", eig("dense_sym"), tol=1e-7, tags=("eigen",))
    add("EigenSolve/dense_generalized", eig("dense_gen"), tol=1e-7, tags=("eigen",))
    add("EigenSolve/dense_nonsym", eig("dense_nonsym"), tol=1e-7, tags=("eigen",))
    add("EigenSolve/sparse_generalized", eig("sparse_gen"), tol=1e-6, tags=("eigen", "iterative"))
    add("EigenSolve/sparse_standard_noshift", eig("sparse_noshift"), tol=1e-6, tags=("eigen", "iterative"))

    # ---- aggregation and scaling -----------------------------------------------------------
    def agg(cls, **kw):
        def fn(r):
            kk = dict(kw)
            if kk.pop("scale", False):
                kk["scaling"] = pym.AggScaling("max" if list(kw.values())[0] > 0 else "min", damping=0.0)
            if kk.pop("aset", False):
                kk["active_set"] = pym.AggActiveSet(lower_rel=0.1, upper_rel=0.95, lower_amt=0.2, upper_amt=0.9)
            return mod1(cls, 0.5 + r.random(12), **kk)
        return fn
    add("PNorm/p2", agg(pym.PNorm, p=2))
    add("PNorm/p-4/scale/aset", agg(pym.PNorm, p=-4, scale=True, aset=True))
    add("KSFunction/rho3", agg(pym.KSFunction, rho=3.0))
    add("KSFunction/rho-2/scale", agg(pym.KSFunction, rho=-2.0, scale=True))
    add("SoftMinMax/alpha2/aset", agg(pym.SoftMinMax, alpha=2.0, aset=True))
    add("SoftMinMax/alpha-3", agg(pym.SoftMinMax, alpha=-3.0))
    add("Scaling/objective", lambda r: mod1(pym.Scaling, float(2.0 + r.random()), scaling=10.0))
    add("Scaling/minval", lambda r: mod1(pym.Scaling, float(2.0 + r.random()), scaling=10.0, minval=1.5))
    add("Scaling/maxval/vector", lambda r: mod1(pym.Scaling, 2.0 + r.random(3), scaling=10.0, maxval=2.5))
    return E
