"""Records the Module/Network protocol on real library networks (for TraceNetwork.tla)."""
import contextlib
import io
import warnings

import numpy as np


def instrument(net, sigs, events):
    """wrap response / sensitivity / reset / _sensitivity of every module of a flat network on the instance"""
    idx = {id(s): i + 1 for i, s in enumerate(sigs)}

    def has():
        out = []
        for s in sigs:
            v = s.sensitivity
            if v is not None:
                out.append(idx[id(s)])
        return out
    for k, m in enumerate(net.mods, 1):
        def mk(m=m, k=k):
            r0, s0, z0, a0 = m.response, m.sensitivity, m.reset, m._sensitivity
            flag = {}

            def response():
                r = r0()
                events.append({"op": "Fwd", "k": k, "called": True, "has": has()})
                return r

            def adj(*a):
                flag["c"] = True
                return a0(*a)

            def sensitivity():
                flag["c"] = False
                if not events or not (events[-1]["op"] == "Bwd" and events[-1]["k"] == k + 1):
                    # a backward sweep starts: whatever the caller assigned since the last event is the seed
                    events.append({"op": "Seed", "k": 0, "called": True, "has": has()})
                r = s0()
                events.append({"op": "Bwd", "k": k, "called": flag["c"], "has": has()})
                return r

            def reset():
                r = z0()
                events.append({"op": "Reset", "k": k, "called": True, "has": has()})
                return r
            m.response, m.sensitivity, m.reset, m._sensitivity = response, sensitivity, reset, adj
        mk()
    return idx


class SeedWatch:
    """logs a Seed event whenever the caller assigns a sensitivity to a response signal"""
    def __init__(self, sig, sigs, events):
        self.__dict__["_s"], self.__dict__["_sigs"], self.__dict__["_ev"] = sig, sigs, events


def build_compliance(seed, nx=4, ny=2):
    import pymoto as pym
    rng = np.random.default_rng(seed)
    dom = pym.DomainDefinition(nx, ny)
    x = pym.Signal("x", 0.4 + 0.3 * rng.random(dom.nel))
    xf = pym.Signal("xf")
    xp = pym.Signal("xp")
    K = pym.Signal("K")
    u = pym.Signal("u")
    c = pym.Signal("c")
    g0 = pym.Signal("g0")
    vol = pym.Signal("vol")
    g1 = pym.Signal("g1")
    nodes0 = dom.nodes[0, :, :].flatten()
    bc = np.sort(np.concatenate([2 * nodes0, 2 * nodes0 + 1]))
    f = np.zeros(2 * dom.nnodes)
    f[-1] = -1.0
    sf = pym.Signal("f", f)
    mods = [pym.DensityFilter(x, xf, domain=dom, radius=1.5),
            pym.EinSum([xf, xf], xp, expression="i,i->i"),
            pym.AssembleStiffness(xp, K, domain=dom, bc=bc),
            pym.LinSolve([K, sf], u),
            pym.EinSum([u, sf], c, expression="i,i->"),
            pym.Scaling(c, g0, scaling=10.0),
            pym.EinSum(x, vol, expression="i->"),
            pym.Scaling(vol, g1, scaling=1.0, maxval=0.5 * dom.nel)]
    sigs = [x, xf, xp, K, sf, u, c, g0, vol, g1]
    return pym.Network(mods), sigs, x, [g0, g1]


def record(seed, tid, kind):
    import pymoto as pym
    net, sigs, x, resp = build_compliance(seed, *((4, 2) if kind != "fd" else (2, 2)))
    events = []
    idx = instrument(net, sigs, events)
    mods = [{"ins": [idx[id(s)] for s in m.sig_in if id(s) in idx], "outs": [idx[id(s)] for s in m.sig_out if id(s) in idx]} for m in net.mods]

    def has():
        return [idx[id(s)] for s in sigs if s.sensitivity is not None]
    err = None
    with contextlib.redirect_stdout(io.StringIO()), warnings.catch_warnings():
        warnings.simplefilter("ignore")
        try:
            if kind == "mma":
                pym.minimize_mma(net, [x], resp, maxit=3, verbosity=0)
            elif kind == "oc":
                pym.minimize_oc(net, [x], resp[0], maxit=3, verbosity=0)
            else:
                pym.finite_difference(net, [x], resp, dx=1e-6, verbose=False)
        except Exception as e:
            err = "%s: %s" % (type(e).__name__, str(e)[:200])
    return {"tid": tid, "kind": kind, "mods": mods, "events": events, "error": err}
