"""Shared case tables and TLC emission for FE.tla / FECases.tla (C08, C12, C01)."""
from vf import tlc


def Q(n, d=1):
    return (n, d)


def q(v):
    return v[0] / v[1]


def ke(nd):
    """a non-symmetric integer element matrix (a row/column swap or transposition is visible)"""
    return tuple(tuple(((3 * a + 5 * b + a * b) % 7) - 2 for b in range(nd)) for a in range(nd))


G2 = [((Q(1), Q(0)), (Q(0), Q(0))), ((Q(0), Q(1)), (Q(0), Q(0))), ((Q(1, 2), Q(-1)), (Q(1), Q(0)))]
G3 = [((Q(1), Q(0), Q(0)), (Q(0), Q(0), Q(0)), (Q(0), Q(0), Q(0))),
      ((Q(0), Q(1), Q(0)), (Q(0), Q(0), Q(1)), (Q(0), Q(0), Q(0))),
      ((Q(1, 2), Q(-1), Q(0)), (Q(1), Q(0), Q(1)), (Q(0), Q(1, 2), Q(1)))]
SIZES2 = [(Q(1), Q(1), Q(1)), (Q(1, 2), Q(3, 2), Q(2)), (Q(2), Q(1), Q(1, 2))]
SIZES3 = [(Q(1), Q(1), Q(1)), (Q(1, 2), Q(3, 2), Q(2))]


def asm_cases(thorough):
    def g(nx, ny, nz=0):
        return dict(nx=nx, ny=ny, nz=nz)

    def bcs(n):
        return tlc.SetOf([set(), {0}, {1, n - 1}, {0, 2, n - 2}])
    cases = []
    spec = [(g(2, 1), 1), (g(2, 1), 2), (g(2, 2), 2), (g(3, 2), 1), (g(1, 1), 3), (g(2, 1, 1), 1), (g(1, 1, 1), 3)]
    if thorough:
        spec += [(g(3, 2), 2), (g(3, 3), 1), (g(2, 2), 3), (g(2, 2, 1), 1), (g(2, 2, 2), 1), (g(2, 1, 1), 2)]
    for gg, ndof in spec:
        nn = (4 if gg["nz"] == 0 else 8)
        n = ndof * (gg["nx"] + 1) * (gg["ny"] + 1) * (gg["nz"] + 1)
        cases.append(dict(g=gg, ndof=ndof, Ke=ke(nn * ndof), bcs=bcs(n)))
    return cases


def elem_cases(thorough):
    cases = []
    for sz in SIZES2:
        for mode in ("strain", "stress"):
            for E, nu in ((Q(1), Q(0)), (Q(2), Q(1, 4)), (Q(1), Q(1, 3))):
                cases.append(dict(dim=2, sz=sz, mode=mode, E=E, nu=nu))
    for sz in SIZES3:
        for E, nu in ((Q(2), Q(1, 4)), (Q(1), Q(1, 3))) if thorough else ((Q(2), Q(1, 4)),):
            cases.append(dict(dim=3, sz=sz, mode="3d", E=E, nu=nu))
    return cases


def consts(asm, elem, variant="faithful"):
    return dict(Variant=variant, AsmCases=tlc.SetOf(asm), ElemCases=tlc.SetOf(elem), GradSets=[set(), set(G2), set(G3)])


def check(chk, asm, elem, label):
    name, mod, cfg = tlc.mc("FECases", consts(asm, elem), invariants=["C08asm", "OpTranspose", "ElemOK"])
    return chk.tlc_must_hold(name, cfg, label=label, extra_modules={name: mod})


def emit(asm, elem):
    name, mod, cfg = tlc.mc("FECases", consts(asm, elem), invariants=["EmitAsm", "EmitElem"])
    return tlc.run(name, cfg, extra_modules={name: mod}, workers=1, timeout=3000)


def refute(variant, asm):
    name, mod, cfg = tlc.mc("FECases", consts(asm, [], variant), invariants=["C08asm"])
    return tlc.run(name, cfg, extra_modules={name: mod}, expect_violation=True)


def emit_all(chk, thorough, want=("ASM", "ELEM")):
    """runs the [S] checks and returns the emitted cases (parallel emission, one TLC process per case group)"""
    import concurrent.futures as cf
    asm, elem = asm_cases(thorough), elem_cases(thorough)
    check(chk, asm if "ASM" in want else [], elem if "ELEM" in want else [], "FE C08asm/OpTranspose/ElemOK")
    out = {"ASM": [], "ELEM": []}
    jobs = []
    with cf.ThreadPoolExecutor(max_workers=14) as ex:
        if "ASM" in want:
            for c in asm:
                jobs.append(ex.submit(emit, [c], []))
        if "ELEM" in want:
            for i in range(0, len(elem), 3):
                jobs.append(ex.submit(emit, [], elem[i:i + 3]))
        for j in cf.as_completed(jobs):
            r = j.result()
            chk.transitions += r.generated
            chk.tlc_runs.append({"module": "FECases", "label": "emit", "generated": r.generated, "wall_s": round(r.wall, 2)})
            for tag, v in r.printed:
                if tag in out:
                    out[tag].append(v[0])
    return out
