"""Generated convex optimisation problems for C10 (MMA) and C17 (OC): design variables spread over several
signals (arrays and scalars), separable objective sum c_i / x_i (+ convex quadratic), linear volume constraint
(+ optional convex quadratic constraint), with an analytically known optimum where available."""
import numpy as np

FP = 100000   # fixed-point unit 1e-5
START_CYCLE = ["float", "int", "shared", "slice", "float", "float"]


def fp(v):
    return [int(round(float(x) * FP)) for x in np.atleast_1d(np.asarray(v, dtype=float))]


def make_problem(rng, n_sig=None, with_quadratic=False, scalars=True, start=None):
    """start: how the design variables exist at the start - "float" (own float arrays / floats), "int" (integer-typed arrays and
    ints, all 1), "shared" (two variable signals constructed from the same array object), "slice" (SignalSlice views, one of
    them through an index array, into one larger signal)"""
    import pymoto as pym
    start = start or str(rng.choice(["float", "float", "float", "int", "shared", "slice"]))
    n_sig = n_sig or int(rng.integers(1, 4))
    lens = [int(rng.choice([1, 1, 2, 3, 4])) if scalars else int(rng.integers(2, 5)) for _ in range(n_sig)]
    if start == "shared":
        k = int(rng.integers(2, 5))
        lens = [k, k] + lens[2:]
    n = sum(lens)
    c = 0.5 + 2.0 * rng.random(n)
    a = 0.5 + rng.random(n)
    sigs = []
    x0_all = []
    if start == "slice":
        x0_all = [0.3 + 0.4 * rng.random(ln) for ln in lens]
        big = pym.Signal("X", np.concatenate([[0.11]] + x0_all + [[0.99]]))
        pos = 1
        for s, ln in enumerate(lens):
            idx = np.arange(pos, pos + ln) if s == 0 else slice(pos, pos + ln)       # the first one through an index array
            sigs.append(big[idx])
            pos += ln
    else:
        shared = None
        for s, ln in enumerate(lens):
            if start == "int":
                x0 = np.ones(ln)
                st = 1 if ln == 1 and scalars and rng.random() < 0.7 else np.ones(ln, dtype=int)
            elif start == "shared" and s < 2:
                if shared is None:
                    shared = 0.3 + 0.4 * rng.random(ln)
                x0, st = shared.copy(), shared
            else:
                x0 = 0.3 + 0.4 * rng.random(ln)
                st = float(x0[0]) if ln == 1 and scalars and rng.random() < 0.7 else x0.copy()
            x0_all.append(x0)
            sigs.append(pym.Signal("x%d" % s, st))
    x0_all = np.concatenate(x0_all)
    vol = float(a @ x0_all) * float(rng.choice([0.8, 1.0, 1.1]))
    cum = np.concatenate([[0], np.cumsum(lens)])

    class Objective(pym.Module):
        def _response(self, *xs):
            self.x = np.concatenate([np.atleast_1d(np.asarray(v, dtype=float)) for v in xs])
            return float(np.sum(c / self.x))

        def _sensitivity(self, df):
            g = -df * c / self.x ** 2
            return [float(g[cum[i]]) if np.ndim(self.sig_in[i].state) == 0 else g[cum[i]:cum[i + 1]] for i in range(len(lens))]

    class Volume(pym.Module):
        def _response(self, *xs):
            x = np.concatenate([np.atleast_1d(np.asarray(v, dtype=float)) for v in xs])
            return float(a @ x / vol - 1.0)

        def _sensitivity(self, df):
            g = df * a / vol
            return [float(g[cum[i]]) if np.ndim(self.sig_in[i].state) == 0 else g[cum[i]:cum[i + 1]] for i in range(len(lens))]

    class Quad(pym.Module):
        def _response(self, *xs):
            self.x = np.concatenate([np.atleast_1d(np.asarray(v, dtype=float)) for v in xs])
            return float(np.sum(self.x ** 2) / (1.5 * np.sum(x0_all ** 2)) - 1.0)

        def _sensitivity(self, df):
            g = df * 2 * self.x / (1.5 * np.sum(x0_all ** 2))
            return [float(g[cum[i]]) if np.ndim(self.sig_in[i].state) == 0 else g[cum[i]:cum[i + 1]] for i in range(len(lens))]
    mods = [Objective(sigs), Volume(sigs)]
    if with_quadratic:
        mods.append(Quad(sigs))
    net = pym.Network(mods)
    responses = [m.sig_out[0] for m in mods]
    return dict(net=net, sigs=sigs, responses=responses, lens=lens, c=c, a=a, vol=vol, x0=x0_all, n=n, start=start)


def analytic_optimum(c, a, vol, xmin, xmax):
    """min sum c/x s.t. a.x <= vol, xmin <= x <= xmax : x_i = clip(sqrt(c_i/(lam a_i)))) with a.x = vol"""
    lo, hi = 1e-12, 1e12
    for _ in range(300):
        lam = np.sqrt(lo * hi)
        x = np.clip(np.sqrt(c / (lam * a)), xmin, xmax)
        if a @ x > vol:
            lo = lam
        else:
            hi = lam
    x = np.clip(np.sqrt(c / (np.sqrt(lo * hi) * a)), xmin, xmax)
    xm = np.asarray(xmax) * np.ones_like(c)
    if float(a @ xm) <= vol + 1e-12:
        return xm
    return x


def bound_spec(rng, lens, lo, hi):
    """returns (argument for the optimiser, specification for the trace {kind, v} in fixed point, per-variable array)"""
    n = sum(lens)
    kind = str(rng.choice(["scalar", "persignal", "pervariable"]))
    if kind == "scalar":
        v = float(rng.uniform(lo, hi))
        return v, dict(kind="scalar", v=fp(v)[0]), np.full(n, v)
    if kind == "persignal":
        v = [float(rng.uniform(lo, hi)) for _ in lens]
        return list(v), dict(kind="persignal", v=fp(v)), np.concatenate([np.full(ln, vv) for ln, vv in zip(lens, v)])
    v = rng.uniform(lo, hi, n)
    return v.copy(), dict(kind="pervariable", v=fp(v)), v
