"""Writes /verif/MANIFEST.json from the table below (single source of truth for the interface)."""
import json
import os

VERIF = os.path.dirname(os.path.dirname(os.path.abspath(__file__)))
ALL = ["C%02d" % i for i in range(1, 21)]

BASELINE = ("cd /repo && env -u PYMOTO_VERIF /venv/bin/python -m pytest -ra -q -p no:cacheprovider --timeout=900 "
            "--continue-on-collection-errors")

TLC_BASE = ("TLC 1.8.0 / SANY and the CommunityModules Json module; the Python projection of concrete objects to "
            "abstract values (numpy arrays -> integer / rational lists); IEEE double arithmetic is exact on the small "
            "integers and dyadic rationals used")

CHECKS = {
    "C18": dict(
        text=("Signals.tla models Signal/SignalSlice as a heap machine (array identities, references held by signals "
              "and by the caller). TLC checks the declarative statement of C18 (NoAlias, MutateFrame, AddExact, "
              "ResetClears, SliceFrame, SliceEffect) on the operational model exhaustively to a depth bound for 1-D, "
              "2-D and scalar bases, and refutes negative variants. The model is bound to the code both ways: every "
              "behaviour to a small depth plus seeded simulated behaviours are replayed on real pymoto objects (real "
              "and complex) comparing every signal, slice and caller-held array after every action with TLC's "
              "expected contents; random API histories recorded from the real code on rank 1-3 arrays are validated "
              "by TraceSignals.tla, which also evaluates the action properties on the observed executions. Bases include index tuples mixing slices, integers and index arrays in either order, and rank-0 arrays (one cell, mutable)."),
        note=(TLC_BASE + "; numpy indexing defines which positions a slice selects; integer-array slices have no "
              "repeats and nested slices are basic slices (the property's quantifier)"),
        technique="TLA+ heap model checked by TLC; spec->code behaviour replay and code->spec trace validation",
        design="9/C18"),
    "C02": dict(
        text=("Network.tla builds module graphs nondeterministically (kinds Sc/Lin/Mul/Split/Cat/Dot, inputs that are "
              "signals or SignalSlices of sources and earlier outputs, shared and doubly-used signals, nested sub-networks, "
              "any non-empty seed set) and runs the operational semantics of Network.response/sensitivity/reset (list "
              "order, reverse order with the skip rule and add_sensitivity accumulation). TLC checks on every program in "
              "the bounds that the sensitivity left on every source signal equals the total derivative defined "
              "independently by forward-mode tangents, that signals no seed depends on keep None, that reset leaves "
              "nothing and that states are untouched; negative variants (no skip rule, overwrite instead of add) are "
              "refuted. Every emitted program is instantiated in pyMOTO (user-defined modules and EinSum/ConcatSignal, "
              "real SignalSlice inputs, nested Networks) and the state and sensitivity of every signal after every "
              "module's response(), sensitivity() (incl. whether _sensitivity was invoked) and reset() are compared with TLC's. A third of the cases is also replayed with timing enabled and the modules appended one by one (the other documented way of driving a network)."),
        note=(TLC_BASE + "; module kinds are multi-affine integer maps; None and the all-zero vector count as the same "
              "sensitivity; correctness of an individual library module's adjoint is C01's subject"),
        technique="TLA+ program-enumerating model checked by TLC; per-module-step replay of every emitted program in pyMOTO",
        design="9/C02"),
    "C04": dict(
        text=("ModuleProto.tla is the single-module protocol machine over {Response, SetSeed(a,b), Sens, Reset} with the "
              "seed a*w1+b*w2 and the accumulated input sensitivity alpha*g1+beta*g2 kept as coefficient pairs; TLC checks "
              "Linear (accumulated = sum of assigned seeds over the Sens steps), StatesUntouched and ResponsePure for pure "
              "and idempotently-masking adjoints and refutes the impure variants. Every history to a depth bound plus "
              "simulated long histories are replayed on a fresh instance of every library-module configuration "
              "(harness/modtable.py: filters, overhang, assembly with dense and dyadic seeds, element operators, EinSum, "
              "ConcatSignal, complex modules, LinSolve dense/sparse/complex/multi-rhs/CG, Inverse, SystemOfEquations, "
              "StaticCondensation, EigenSolve dense/sparse, aggregations, Scaling): after every step the input "
              "sensitivities must equal alpha*g1+beta*g2 with TLC's coefficients (g1, g2 measured on another fresh "
              "instance) and all states must be bit-identical where the specification says they are untouched. Loop-shaped "
              "histories (SpecS: one response, then seed / sensitivity / reset cycles with changing seeds) reach three cycles; "
              "real-typed seeds on complex outputs, and input signals realised with an allocated sensitivity or as SignalSlice "
              "views, are replayed as further realisations of the same behaviours."),
        note=(TLC_BASE + "; modules are deterministic for fixed inputs; per-module tolerance 1e-9 (1e-6..1e-8 where a "
              "LAPACK/ARPACK/CG solve is involved); MathGeneral and AutoMod cannot be executed (sympy/jax absent)"),
        technique="TLA+ protocol machine checked by TLC; replay of all emitted histories on every library module configuration",
        design="9/C04"),
    "C06": dict(
        text=("LDAS.tla models LDAWrapper.update/solve operationally (flag detection unless user-given, storage/conjugation "
              "selection, modified Gram-Schmidt reconstruction with the real/complex skip rule in exact fraction-free "
              "Gaussian-integer arithmetic, inner solve iff a residual remains, orthogonalised append, both databases cleared "
              "on update) over five matrix classes and a pool of exact right-hand sides (new, repeated, zero, scaled, summed, "
              "imaginary multiples, conjugate pairs, blocks with dependent columns). TLC checks the declarative C06: ModeSound "
              "(the system solved is the requested one for the current class), Forget, Reuse (span by exact rank, modulo the "
              "recorded known finding), NoNeedlessReuse and DbRank for all histories to depth 4/5, refutes the negative "
              "variants, and LDASPattern.tla checks DiagSound/DiagComplete over every 3x3 sparsity pattern admitting a "
              "non-singular matrix. All behaviours to depth 2/3 and simulated long ones are replayed on LDAWrapper around a "
              "counting dense and sparse LU: per step the inner-call decision, both database sizes, the flags, dtype/shape of "
              "the answer and the residual of the requested system of the current matrix are compared. LDASPattern.tla also covers histories of updates of one wrapper whose value patterns change while the stored sparsity structure stays fixed; every pattern is realised with real and complex values, dense, sparse and fixed-structure sparse."),
        note=(TLC_BASE + "; classes realised by seeded, well-conditioned generic matrices; right-hand sides embedded "
              "isometrically so exact dependence equals numerical dependence far from the wrapper tolerance; user-given "
              "flags are truthful; [O] residual threshold 1e-5"),
        technique="TLA+ state machine with exact Gram-Schmidt checked by TLC; behaviour replay on LDAWrapper with a counting inner solver",
        design="9/C06"),
    "C03": dict(
        text=("Lifecycle.tla is a version/taint model of everything that survives between calls on a network (output "
              "states, factorisations and LDAS databases, stored solutions used as initial guess, eigen shift-invert and "
              "per-mode adjoint solvers, overhang layer maxima, the ledger of sensitivity contributions since the last "
              "reset). TLC checks NoStale (a clean cycle after a reset uses nothing computed for another input), "
              "StatesCurrent, ResetClean and NoSeedNoChange over all protocol-respecting histories to depth 8/10 and refutes "
              "the stale-cache and reset-keeps variants. Every history to a small depth, every optimisation-loop-shaped "
              "history (>= 2 cycles) and simulated long ones are replayed on eight network templates that contain every "
              "caching component of the property (LinSolve direct+LDAS and CG+multigrid with 2 rhs, SystemOfEquations, "
              "StaticCondensation, dense and sparse EigenSolve with eigenvector seeds, OverhangFilter, aggregation with "
              "undamped scaling and active set); wherever the specification says states are valid / sensitivities are "
              "clean, all signal states and sensitivities are compared with a freshly built identical network evaluated "
              "once; Reset must leave nothing, Sens without seed must change nothing. Every library-module configuration of "
              "harness/modtable.py (except the documented memory Scaling) is additionally run as a one-module network whose inputs "
              "all change with the design index, on sampled histories with a clean cycle after earlier activity."),
        note=(TLC_BASE + "; the matrix class is constant per template; tolerances 1e-8..1e-9 (direct) and 1e-5..1e-6 "
              "(CG / ARPACK); documented memories (Scaling, damped AggScaling, writer counters) excluded"),
        technique="TLA+ version/taint model checked by TLC; replay of emitted call histories against a freshly built network",
        design="9/C03"),
    "C15": dict(
        text=("DyadAlg.tla defines every public DyadCarrier operation (construction from vector lists incl. zero dyads and "
              "unset shape, +, -, unary minus, in-place add/subtract incl. A += A, scalar products from both sides, matrix "
              "and vector products from both sides, transpose, conj, real, imag, diagonal(k), element / slice / fancy "
              "indexing, zeroing of rows and columns, contract (trace, dense, batched+sliced, sparse), copy) by dense "
              "Gaussian-integer matrix algebra over three carrier slots; TLC checks ShapeClosure, TypeSound and Frame (no "
              "operand but the in-place target changes). All operation sequences to depth 2/3 from five initial "
              "configurations (real, complex, mixed, zero-dyad, unset-shape) and simulated sequences of depth 8 are replayed "
              "on real DyadCarrier objects; after every operation todense(), shape and complex-ness of all three slots and "
              "the returned value are compared exactly, with a 5 s alarm against non-termination. A focused depth-3 enumeration interleaves the observers (contractions, products, trace) with the in-place mutators (row / column zeroing, +=)."),
        note=(TLC_BASE + "; an unset-shape carrier counts as the zero matrix of any shape; complex-ness must agree with "
              "todense() or iscomplex()"),
        technique="TLA+ dense-algebra model enumerated by TLC; exact replay of operation sequences on DyadCarrier",
        design="9/C15"),
    "C13": dict(
        text=("Grid.tla gives the index formulas of DomainDefinition operationally and C13 declaratively (element and node "
              "numbering bijective with Cartesian indices, NodeIdx inverse, connectivity = the 2^dim corners in the documented "
              "local order, per-dof expansion for ndof 1..3, positions = index x size, shape functions non-negative / sum to "
              "one / Kronecker, reported derivative = exact difference quotient) in exact rationals; TLC checks it for every "
              "2D grid up to 5x5 (7x7) and 3D grid up to 3x3x3 (4x4x4) and three element-size triples and prints the complete "
              "tables, which are compared with DomainDefinition's methods (scalar and array arguments), attributes and "
              "helper arrays. The enumeration is complete within the bounds. Index arguments are given as scalars, vectors and rank-2 / rank-3 index arrays; all shape-function evaluations are made before any comparison (results must not alias)."),
        note=TLC_BASE + "; shape functions are evaluated on the 5^dim lattice of the element (they are multi-affine, so this determines them)",
        technique="TLA+ exact-rational grid model checked by TLC; table comparison with DomainDefinition",
        design="9/C13"),
    "C16": dict(
        text=("Agg.tla models AggActiveSet operationally (band on the normalised values, then removal of the first "
              "floor(n*lower_amt) and last floor(n*(1-upper_amt)) entries of any sorted order argsort may return) and "
              "declaratively (band minus disjoint lowest/highest sets of those sizes) in exact rationals; TLC checks for every "
              "vector with ties up to length 4/5 over {0,1,2,3} (5/6 over {0,1}) and all dyadic fraction combinations that the "
              "producible masks are exactly the admissible ones and that a fraction rounding to zero removes nothing, and for "
              "AggScaling histories the recurrence s_k = d*s_(k-1) + (1-d)*true/approx and exactness without damping. Every "
              "case is replayed on AggActiveSet (mask must be admissible; PNorm with undamped scaling must return the extreme "
              "of the kept entries) and every history on PNorm(p=1)+AggScaling and on AggScaling directly, compared with the "
              "exact rationals. [O] the approximation bounds of PNorm, KSFunction and SoftMinMax for both parameter signs are "
              "evaluated numerically on seeded positive data. Every active-set case is also replayed on exact positive affine images of the data."),
        note=(TLC_BASE + "; fractions are dyadic so n*fraction is exact in floating point; the bounds involving n^(1/p) and "
              "ln(n)/rho are observation predicates evaluated by the harness, not by TLC"),
        technique="TLA+ exact-rational model of active-set and scaling checked by TLC; replay of all cases; numeric bound observations",
        design="9/C16"),
    "C14": dict(
        text=("Overhang.tla holds the direction table (strings over {+,-,none} x {x,y,z} in both orders and cases, sign by the "
              "presence of a minus) and the exact layer sweep of Langelaar's filter at the admissible parameter point p=2, "
              "xi_0=1/nsampling, eps=0, where smax is the sum of squares over the 3/5/9-point stencil in the previous layer "
              "(clipped to the domain) and smin is min. TLC checks, for all 4/6 directions and all density fields over "
              "{0,1/2,1} on small 2D/3D grids: base layer unchanged, y <= x, supported solid stays solid, unsupported material "
              "removed, and equivariance under mirroring every axis and swapping x/y. Every emitted case is replayed on "
              "OverhangFilter with every vector and string form of the direction; the parsed direction attribute and the "
              "filtered field are compared with TLC's exact rationals. [O] at default parameters (p=40, eps=1e-4) the bound "
              "y <= x + sqrt(eps)/2, base layer, solid-stays-solid, removal and mirror equivariance are evaluated "
              "numerically on seeded random fields."),
        note=(TLC_BASE + "; the 1e-152 regularisation shifts of the implementation are covered by an absolute tolerance of "
              "1e-12 at the rational parameter point; the smooth-min/max bounds at default parameters are observation "
              "predicates evaluated by the harness"),
        technique="TLA+ exact-rational layer-sweep model checked by TLC; replay of all cases in every direction form; numeric observations",
        design="9/C14"),
    "C09": dict(
        text=("Filt.tla gives FilterConv operationally (padded index array built axis by axis: wrapped sides first, then the "
              "upper edge, then the lower edge; constant sides become overrides applied in x, y, z order; valid-mode "
              "convolution) and declaratively (extend the field beyond each face by its rule along x, then y, then z; "
              "y(c) = sum_o w(P-o) X(c+o)). TLC checks PadAxisSound for every mode pair, and on every 2D grid {1..4}x{1..3} "
              "with five integer kernels and all 4^4 boundary-mode combinations (3D: 2-3 grids, two 3x3x3 kernels, a seeded "
              "sample / all of 4^6) that operational = declarative on the zero field and every unit field (complete, the map "
              "is affine), that constants are preserved and outputs are convex combinations for non-negative kernels without "
              "constant padding, and that symmetric padding with a mirror-symmetric kernel preserves the total. FilterConv is "
              "compared exactly with TLC's columns; DensityFilter (incl. nonpadding) and FilterConv(radius, relative/absolute "
              "units, non-unit element sizes) are compared on TLC's exact support structure (pairs with d^2 < r^2 and rational "
              "squared distances) for ten radii from below one element to larger than the domain."),
        note=(TLC_BASE + "; kernel half-width <= elements per axis; cone weights max(0, r-d) are irrational in general and "
              "are evaluated by the harness on TLC's structure [R*]; FilterConv(radius) is pinned by proportionality to the "
              "cone sums plus unit kernel sum, not by a particular truncation of the kernel window"),
        technique="TLA+ padding/convolution model checked by TLC over all boundary-mode combinations; exact column replay; structure-from-spec for cone weights",
        design="9/C09"),
    "C08": dict(
        text=("FE.tla (over GridOps.tla) states AssembleGeneral operationally (triplets with rows/cols from the dof "
              "connectivity, every entry with a constrained row or column removed, diagonal appended, duplicates summed) and "
              "declaratively (x_e K_e scattered through the geometric corner relation, constrained rows/columns zero, "
              "bcdiagval on the diagonal); TLC checks equality on the zero, every unit and a ramp scaling vector (complete: "
              "affine) for non-symmetric integer element matrices, ndof 1..3, four constrained-dof sets and 2D/3D grids, and "
              "refutes row/column-swap and rows-only-bc variants. Element matrices are obtained by exact tensor-product "
              "integration in rationals (sizes from {1/2,1,3/2,2}, E in {1,2}, nu in {0,1/4,1/3}, plane stress/strain/3D); TLC "
              "checks symmetry, exact annihilation of all 3/6 rigid-body modes, u'Ku = V stress.strain >= 0 for affine fields, "
              "total mass rho*V per direction, Poisson constants and energy of a linear field. The assembled matrices are "
              "compared exactly with AssembleGeneral (csc/csr, with add_constant), the element matrices with "
              "AssembleStiffness/Mass/Poisson; [O] symmetry, positive semi-definiteness, rigid-body null space, total mass and "
              "Poisson properties of assembled matrices on larger random meshes are evaluated numerically. Constrained dofs are given as sorted array, reversed list, with default and with integer diagonal value; scaling vectors include dyadic fractions."),
        note=(TLC_BASE + "; the 2-point Gauss rule of the implementation is exact for these integrands, so its result must "
              "equal the exact integral to rounding (rtol 1e-12); eigenvalue-based semi-definiteness is an observation predicate"),
        technique="TLA+ exact-rational FE model checked by TLC; exact comparison of assembled and element matrices; numeric observations",
        design="9/C08"),
    "C12": dict(
        text=("FE.tla: for affine displacement fields with rational gradients TLC checks that the centroid strain operator "
              "returns the symmetric gradient with engineering shear, that stress = D strain, that V stress.strain = u'Ku with "
              "the exactly integrated stiffness, that the thermal load has zero resultant force and moment and equals K times "
              "the free expansion in plane stress and 3D, and (OpTranspose) that the nodal scatter operator is the transpose of "
              "the element gather operator. Strain, Stress, ElementAverage, ElementOperation (all operator shapes incl. the "
              "per-node operator repeated over dofs), NodalOperation and ThermoMechanical are compared with TLC's exact values "
              "on single elements and on multi-element meshes with non-unit element sizes. Operators with two leading dimensions are checked against the specification's gather matrix by linearity."),
        note=(TLC_BASE + "; in 2D the implementation's Stress carries the out-of-plane size, which is applied to the "
              "specification's stress as well"),
        technique="TLA+ exact-rational FE model checked by TLC; exact comparison with the element-level modules",
        design="9/C12"),
    "C05": dict(
        text=("Solvers.tla enumerates Gaussian-integer matrices (all 2x2 over a real and a complex entry set, all symmetric and "
              "a family of Hermitian 3x3, binary 3x3, and a curated list needing pivoting / 2x2 LDL blocks / triangular / "
              "diagonal) and checks op(A) adj(op(A)) = det I for op in {N,T,H}, the transposition identities the solvers rely "
              "on (A^T x = b <=> A^H conj x = conj b, symmetric => T = N, Hermitian => H = N), and that the solver selected by "
              "the transcribed decision tree of auto_determine_solver is admissible for the matrix's class. For every "
              "non-singular matrix TLC prints class, admissible solvers, the auto-determined solver (dense and sparse) and "
              "adjugate / determinant per mode; every admissible solver (SolverDiagonal, DenseQR, DenseLU, DenseCholesky incl. "
              "LDL fall-back, DenseLDL with each flag, SparseLU, CG with none/Jacobi/SOR/ILU, and the auto-determined ones) "
              "must return adj b / det with the shape of b for modes N/T/H and right-hand sides (n), (n,1), (n,3) with "
              "dependent columns, real and complex; the auto choice itself is compared with the transcription. [O] CG with "
              "GeometricMultigrid (V and W) and with an initial guess on 2D/3D Poisson and elasticity matrices is decided by "
              "the residual of the requested system. SolverLife.tla models one solver object over histories of update(A_i) / solve "
              "with the state each solver caches (own factor; Cholesky success flag and LDL back-up; detected LDL kind): TLC checks "
              "that every solve reads a factor of the matrix given last, of a kind valid for it, refutes the stale-flag variants, "
              "and every call sequence to depth 4/5 on three matrix pools x 13 solver configurations is replayed on one real "
              "solver object, each solve compared with the exact solution for the current matrix."),
        note=(TLC_BASE + "; a complex right-hand side for a real sparse matrix is outside the admissible inputs of the "
              "SuperLU-based components; optional back-ends (Pardiso, CHOLMOD, CVXOPT) are absent; growth of the condition "
              "number and single precision are not decided; multigrid convergence is an observation predicate"),
        technique="TLA+ exact adjugate/determinant model and decision-tree transcription checked by TLC; replay on every admissible solver",
        design="9/C05"),
    "C07": dict(
        text=("Solvers.tla (partitioned part): for every dof partition free/prescribed of every enumerated Gaussian-integer "
              "matrix TLC checks LinSysOK (the free block times its adjugate is det I, also transposed - so the documented "
              "two-step formulation implies A x = b with the prescribed values and applied loads in place) and SchurOK (the "
              "scaled Schur complement det(A_ff) A_mm - A_mf adj(A_ff) A_fm times the main block of adj of the (main+free) "
              "system equals det det I, i.e. the condensed system reproduces the main-dof response). LinSolve (dense, sparse, "
              "with solver override; vector, dependent block and complex right-hand sides), Inverse, SystemOfEquations (every "
              "partition, free/prescribed given or derived, vector and block loads, sparse and dense input) and "
              "StaticCondensation (every main/free choice, sparse and dense input) are compared with TLC's exact adjugates, "
              "determinants and Schur complements, and A x = b is evaluated directly."),
        note=(TLC_BASE + "; matrices are small (n <= 3) Gaussian-integer matrices of every class incl. rows/columns decoupled "
              "by zero entries; a complex right-hand side for a real sparse matrix is outside LinSolve's documented inputs"),
        technique="TLA+ exact partitioned-system identities checked by TLC; replay on the four linear-system modules",
        design="9/C07"),
    "C11": dict(
        text=("Eigen.tla constructs symmetric pencils exactly: A = L Q D Q' L', B = L L' with a Householder reflector Q from an "
              "integer vector, a distinct integer spectrum D and a unit lower triangular integer L (L = I: standard problem), "
              "and defines the expected output: ascending eigenvalues, B-normalised eigenvectors L^-T Q e_i with non-negative "
              "mean, and for the sparse path the nmodes eigenvalues closest to the shift sigma. TLC checks A q = lambda B q, "
              "q'Bq = 1, B-orthogonality and the ordering exactly in rationals on every pencil (n = 3 and 5). Dense (standard "
              "and generalised) and sparse (nmodes 2-3, several shifts) EigenSolve are compared with the exact values. [O] for "
              "complex Hermitian, real and complex general, complex symmetric matrices (standard and generalised) and FE "
              "stiffness/mass pencils with boundary conditions on the sparse path, the residual, the bilinear normalisation, "
              "ordering, sign, count and the closest-to-shift selection are evaluated numerically. Dense cases are also run with column-major inputs, and response() must leave its input matrices unchanged."),
        note=(TLC_BASE + "; eigenvalues are distinct and eigenvectors with zero mean (arbitrary sign) are excluded; the classes "
              "without an exact rational construction are decided by numerical observation predicates only"),
        technique="TLA+ exact pencil construction checked by TLC; comparison of EigenSolve with exact eigenpairs; numeric observations",
        design="9/C11"),
    "C19": dict(
        text=("FiniteDiff.tla transcribes finite_difference step by step (selection of the sub-network between the first module "
              "using an input of interest and the last producing an output of interest, one response of the preceding modules, "
              "reset, response, per output seed / sensitivity / store / reset, per input entry perturb / response / report / "
              "restore with the imaginary-direction pass for complex data, keep_zero_structure, relative_dx) over networks of "
              "modules with exactly known Jacobians on the Gaussian rationals (multi-affine, quadratic, holomorphic complex, "
              "real-valued non-holomorphic, scalar signals, sparse-matrix output, two-output modules, a deliberately wrong "
              "adjoint); TLC checks Restored, NoSensLeft, Visited (every entry once per output, twice for complex entries, "
              "zeros skipped) and Verdict (right adjoints are reported with exactly matching pairs on affine networks, wrong "
              "ones are not). Every case is run through pymoto.finite_difference with a recording test_fn: the complete "
              "callback sequence (analytical and numerical values, dx) and the final states and sensitivities are compared "
              "with TLC's exact rationals, with the source signals realised as plain Signals, as Signals that own an allocated "
              "sensitivity, and as SignalSlice views."),
        note=(TLC_BASE + "; fromsig / tosig are given explicitly; perturbing a sparse-matrix input is outside the admissible "
              "inputs; dyadic dx and integer data make difference quotients exact"),
        technique="TLA+ transcription of the finite-difference procedure checked by TLC; replay with a recording callback",
        design="9/C19"),
    "C10": dict(
        text=("Optim.tla gives the MMA sub-problem set-up operationally (asymptote offsets adapted by x1.2 / x0.7 on the sign "
              "of (x-xold1)(xold1-xold2) and clipped to [1/asybound^2, asybound]; low/upp; alfa/beta from albefa, move and the "
              "bounds; xold shifts) in exact rationals; TLC checks for every position of x, xold1, xold2 on a rational grid, "
              "every reachable offset, albefa and move that the offsets stay in their band, low < alfa <= x <= beta < upp, "
              "xmin <= alfa, beta <= xmax and the move limit, that per-signal / per-variable bounds expand to the per-variable "
              "vector and that the design vector splits back to the signals; a variant without the xmin clause is refuted. Every "
              "case of that set-up is replayed on the real MMA.mmasub (both versions): offsets, asymptotes and admissible interval "
              "exactly, approximation value and gradient at x. "
              "Runs of MMA on generated convex problems (1-3 signals incl. scalars; scalar, per-signal and per-variable bounds "
              "and move limits; both MMA versions; several asymptote parameters; 1-2 constraints) are recorded at every "
              "sub-problem through a patched subsolv, a wrapped mmasub and fn_callback, in fixed point, and validated by "
              "TraceOptim.tla: enclosure and move inequalities with sound slack, iteration counter, xold bookkeeping, bound "
              "expansion and write-back exactly. [O] per iteration the approximation reproduces g and dg at x and the "
              "returned point satisfies the sub-problem's KKT conditions (independent residual); at the end the design is "
              "within 2e-3 of the analytic optimum and constraints are <= 1e-6."),
        note=(TLC_BASE + "; the interior-point algorithm itself and the convergence rate are not decided by the specification "
              "(observation predicates); fixed-point unit 1e-5 with 2 units of slack"),
        technique="TLA+ enclosure lemma checked by TLC; trace validation of recorded MMA runs by TLC; numeric observation predicates",
        design="9/C10"),
    "C17": dict(
        text=("Optim.tla (OCStep): TLC checks in exact rationals that for any candidate value the clipped OC update lies in "
              "[max(xmin, x-move), min(xmax, x+move)], that this interval is non-empty and within the bounds and that the step "
              "is at most the move limit, and that the design vector splits back to the variable signals. Runs of minimize_oc "
              "on generated separable problems sum c_i/x_i (1-3 variable signals incl. scalars, scalar and per-variable bounds, "
              "three move limits, volume targets below/at/above the initial volume or defaulted) are recorded at every network "
              "response and validated by TraceOptim.tla (bounds, move limit between consecutive designs, write-back to the "
              "right signals). [O] the volume lies in the bracket implied by the optimiser's bisection tolerance (independent "
              "bisection) whenever the target is reachable within the move limits, and the final design is within 2e-3 of the "
              "analytic optimum."),
        note=TLC_BASE + "; fixed-point unit 1e-5 with 2 units of slack; volume bracket and convergence are observation predicates",
        technique="TLA+ clipping lemma checked by TLC; trace validation of recorded OC runs by TLC; numeric observation predicates",
        design="9/C17"),
    "C20": dict(
        text=("Writers.tla is a state machine over an abstract file system under histories of WriteToVTI and ScalarToFile "
              "responses: classification of each vector by size (multiple of the element count => cell data, of the node count "
              "=> point data, else skipped), component count, block vectors split along the other axis with indexed names, "
              "2-component point vectors on 2D domains interleaved to three components, one file per iteration unless "
              "overwrite (nothing written when no vector qualifies), header once then one row per call with the iteration "
              "number first and one column per scalar or per entry. TLC checks FilesOK and ArraysOK on all histories to depth "
              "3/4 for six configurations (2D and 3D domains with non-multiple element/node counts, vector / block / skipped "
              "inputs, scale factors, overwrite modes, formats .10e/.4f/e/.6g/.3e/f, separators tab ; space , | and .csv). "
              "Every behaviour is replayed on the real modules in a scratch directory; after every call all files are decoded "
              "(XML attributes, extent / spacing / origin, base64 blocks as float32, log header and rows) and compared with "
              "the specification's file system. Configurations include block vectors in both orientations, arrays larger than 64 KiB and logged arrays in column-major memory (log columns are compared by name)."),
        note=(TLC_BASE + "; byte-level decoding (XML, base64, text) is the harness's trusted projection; data are small integers, "
              "exact in single precision; whether third-party VTK readers accept the files is not decided"),
        technique="TLA+ abstract file-system machine checked by TLC; behaviour replay with decoding of the written files",
        design="9/C20"),
    "C01": dict(
        text=("The adjoint identity Re sum(g v) = d/dv Re sum(w y) is decided per module family. (a) LinSolve / Inverse: "
              "Solvers.tla proves the identity for dA = -lambda x', db = lambda and dA = -B'WB' in exact Gaussian-integer "
              "arithmetic on every enumerated matrix, and the modules' sensitivities (dense/sparse, real/complex, one and two "
              "right-hand sides) are compared with TLC's exact x, lambda and Inverse adjoint. (b) OverhangFilter: Overhang.tla "
              "defines the exact Jacobian of the layer sweep at the rational parameter point by forward-mode differentiation "
              "(all directions, nsampling 3/5/9, tie-free fields); the module's sensitivity for every unit seed and a random "
              "seed must be J'w. (c) EigenSolve: Eigen.tla gives the exact directional derivatives of eigenvalues and "
              "B-normalised eigenvectors along symmetric directions by first-order perturbation theory (checked against the "
              "defining equations by TLC); dense standard/generalised and sparse EigenSolve with eigenvalue, eigenvector, "
              "mixed and partial seeds are contracted with the directions and compared. (d) all (multi-)affine modules "
              "(FilterConv with mixed padding modes and constant overrides, DensityFilter incl. nonpadding, AssembleGeneral / "
              "Stiffness / Mass / Poisson with dense and dyadic seeds and boundary conditions, ElementOperation of every "
              "operator shape, Strain, Stress, ElementAverage, NodalOperation, ThermoMechanical, EinSum incl. complex and "
              "mixed, ConcatSignal with scalars, MakeComplex, RealPart, ImagPart): the directional derivative along every unit "
              "direction (and imaginary unit direction) is the exact difference of the real module, whose forward map is bound "
              "to the specifications by C08/C09/C12; full, single-output and unit seeds. (e) [O] SystemOfEquations, "
              "StaticCondensation (symmetric, complex symmetric, non-symmetric), LinSolve of every class incl. CG, ComplexNorm, "
              "PNorm / KSFunction / SoftMinMax (both parameter signs, active set, frozen scaling), Scaling, OverhangFilter at "
              "default parameters, dense and sparse EigenSolve on generic matrices: Richardson-extrapolated central differences "
              "along class-preserving directions."),
        note=(TLC_BASE + "; decided only by numerical observation predicates (not by the specification): EigenSolve on generic / "
              "non-symmetric matrices, KSFunction, SoftMinMax, PNorm for general p, OverhangFilter at general parameters; not "
              "executable here: MathGeneral (sympy absent), AutoMod (jax absent)"),
        technique="TLA+ exact adjoint identities / Jacobians / perturbation derivatives checked by TLC and compared with the modules; exact-difference adjoint identity for affine modules",
        design="9/C01"),
}


def main():
    checks = []
    for pid in ALL:
        if pid not in CHECKS:
            continue
        c = CHECKS[pid]
        checks.append({
            "property_id": pid,
            "quick_cmd": "bin/check %s --tier quick" % pid,
            "thorough_cmd": "bin/check %s --tier thorough" % pid,
            "evidence_file": "evidence/%s.json" % pid,
            "replay_cmd_template": "bin/check %s --replay {path}" % pid,
            "engine": "tlc-conformance",
            "level_claimed": {"category": "model_checking", "text": c["text"], "design_ref": "DESIGN.md section " + c["design"]},
            "level_note": c["note"],
            "technique": c["technique"],
        })
    na = [{"property_id": pid, "reason": NOT_APPLICABLE.get(pid, "check not built yet (work in progress); not claimed until its check exists and is green")}
          for pid in ALL if pid not in CHECKS]
    man = {
        "version": 1,
        "setup_cmd": "bin/setup",
        "hooks": {
            "guard": "PYMOTO_VERIF",
            "enable": ("no source hooks: pyMOTO is pure Python and sequential; the harness imports it from /repo's "
                       "working tree (PYTHONPATH=/repo, overridable with PYMOTO_VERIF_REPO) and observes it through the "
                       "public API and through wrappers installed from outside on instances / module namespaces. "
                       "bin/check exports PYMOTO_VERIF=1 for uniformity; nothing in /repo reads it."),
            "baseline_off_cmd": BASELINE,
            "source_commits": [],
            "add_only": True,
        },
        "engines": [{
            "name": "tlc-conformance",
            "path": "bin/check",
            "serves_properties": [c["property_id"] for c in checks],
            "kind_free_text": ("explicit TLA+ specifications (spec/*.tla) model-checked with TLC; bound to the code by replaying "
                               "TLC-emitted cases/behaviours in pyMOTO and by validating traces recorded from pyMOTO with TLC"),
        }],
        "checks": checks,
        "notes": ("bin/check <ID> [--tier quick|thorough] [--replay path]; exit 0 held, 1 VIOLATION, 2 machinery failure. "
                  "known_findings.json lists genuine defects recorded rather than repaired. bin/selftest applies the mutants "
                  "in selftest/mutants and seeded/ to scratch copies of /repo and requires each to be detected."),
        "not_applicable": na,
    }
    with open(os.path.join(VERIF, "MANIFEST.json"), "w") as fh:
        json.dump(man, fh, indent=1)
    print("MANIFEST.json: %d checks, %d not claimed" % (len(checks), len(na)))


NOT_APPLICABLE = {}

if __name__ == "__main__":
    main()
