"""Writes /verif/MANIFEST.json from the table below (single source of truth for the interface)."""
import json
import os

VERIF = os.path.dirname(os.path.dirname(os.path.abspath(__file__)))
ALL = ["C%02d" % i for i in range(1, 21)]

BASELINE = ("cd /repo && env -u PYMOTO_VERIF /venv/bin/python -m pytest -ra -q -p no:cacheprovider --timeout=900 "
            "--continue-on-collection-errors")

TLC_BASE = ("TLC 1.8.0 / SANY and the CommunityModules Json module; the Python projection of concrete objects to "
            "abstract values (numpy arrays -> integer / rational lists); IEEE double arithmetic is exact on the small "
            "integers and dyadic rationals used")

CHECKS = {
    "C18": dict(
        text=("Signals.tla models Signal/SignalSlice as a heap machine (array identities, references held by signals "
              "and by the caller). TLC checks the declarative statement of C18 (NoAlias, MutateFrame, AddExact, "
              "ResetClears, SliceFrame, SliceEffect) on the operational model exhaustively to a depth bound for 1-D, "
              "2-D and scalar bases, and refutes negative variants. The model is bound to the code both ways: every "
              "behaviour to a small depth plus seeded simulated behaviours are replayed on real pymoto objects (real "
              "and complex) comparing every signal, slice and caller-held array after every action with TLC's "
              "expected contents; random API histories recorded from the real code on rank 1-3 arrays are validated "
              "by TraceSignals.tla, which also evaluates the action properties on the observed executions."),
        note=(TLC_BASE + "; numpy indexing defines which positions a slice selects; integer-array slices have no "
              "repeats and nested slices are basic slices (the property's quantifier)"),
        technique="TLA+ heap model checked by TLC; spec->code behaviour replay and code->spec trace validation",
        design="9/C18"),
}


def main():
    checks = []
    for pid in ALL:
        if pid not in CHECKS:
            continue
        c = CHECKS[pid]
        checks.append({
            "property_id": pid,
            "quick_cmd": "bin/check %s --tier quick" % pid,
            "thorough_cmd": "bin/check %s --tier thorough" % pid,
            "evidence_file": "evidence/%s.json" % pid,
            "replay_cmd_template": "bin/check %s --replay {path}" % pid,
            "engine": "tlc-conformance",
            "level_claimed": {"category": "model_checking", "text": c["text"], "design_ref": "DESIGN.md section " + c["design"]},
            "level_note": c["note"],
            "technique": c["technique"],
        })
    na = [{"property_id": pid, "reason": NOT_APPLICABLE.get(pid, "check not built yet (work in progress); not claimed until its check exists and is green")}
          for pid in ALL if pid not in CHECKS]
    man = {
        "version": 1,
        "setup_cmd": "bin/setup",
        "hooks": {
            "guard": "PYMOTO_VERIF",
            "enable": ("no source hooks: pyMOTO is pure Python and sequential; the harness imports it from /repo's "
                       "working tree (PYTHONPATH=/repo, overridable with PYMOTO_VERIF_REPO) and observes it through the "
                       "public API and through wrappers installed from outside on instances / module namespaces. "
                       "bin/check exports PYMOTO_VERIF=1 for uniformity; nothing in /repo reads it."),
            "baseline_off_cmd": BASELINE,
            "source_commits": [],
            "add_only": True,
        },
        "engines": [{
            "name": "tlc-conformance",
            "path": "bin/check",
            "serves_properties": [c["property_id"] for c in checks],
            "kind_free_text": ("explicit TLA+ specifications (spec/*.tla) model-checked with TLC; bound to the code by replaying "
                               "TLC-emitted cases/behaviours in pyMOTO and by validating traces recorded from pyMOTO with TLC"),
        }],
        "checks": checks,
        "notes": ("bin/check <ID> [--tier quick|thorough] [--replay path]; exit 0 held, 1 VIOLATION, 2 machinery failure. "
                  "known_findings.json lists genuine defects recorded rather than repaired. bin/selftest applies the mutants "
                  "in selftest/mutants and seeded/ to scratch copies of /repo and requires each to be detected."),
        "not_applicable": na,
    }
    with open(os.path.join(VERIF, "MANIFEST.json"), "w") as fh:
        json.dump(man, fh, indent=1)
    print("MANIFEST.json: %d checks, %d not claimed" % (len(checks), len(na)))


NOT_APPLICABLE = {}

if __name__ == "__main__":
    main()
