import importlib
import sys

from vf import core


def main():
    if len(sys.argv) < 2:
        print("usage: check <ID> [--tier quick|thorough] [--replay path]", file=sys.stderr)
        sys.exit(2)
    pid = sys.argv[1].upper()
    try:
        mod = importlib.import_module("props." + pid.lower())
    except ImportError as e:
        print("no check for %s: %s" % (pid, e), file=sys.stderr)
        sys.exit(2)
    core.main(mod.run, pid)


if __name__ == "__main__":
    main()
