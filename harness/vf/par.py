"""Process-parallel map for replay work (fork; the workers import pymoto themselves)."""
import multiprocessing as mp
import os


def chunks(seq, n):
    seq = list(seq)
    k = max(1, (len(seq) + n - 1) // n)
    return [seq[i:i + k] for i in range(0, len(seq), k)]


def pmap(fn, items, nproc=None):
    nproc = nproc or min(14, os.cpu_count() or 1)
    items = list(items)
    if len(items) <= 1 or nproc <= 1:
        return [fn(x) for x in items]
    with mp.get_context("fork").Pool(min(nproc, len(items))) as pool:
        return pool.map(fn, items, chunksize=1)


import threading

_flush_lock = threading.Lock()


class Batcher:
    """sink for tlc.run: collects the values printed under one tag and hands them on in batches while TLC is still running,
    so that a long emission never has to be held in memory as a whole"""
    def __init__(self, tag, size, fn):
        self.tag, self.size, self.fn = tag, size, fn
        self.buf, self.n, self.other = [], 0, []

    def __call__(self, tag, vals):
        if tag != self.tag:
            self.other.append((tag, vals))
            return
        self.buf.append(vals[0])
        self.n += 1
        if len(self.buf) >= self.size:
            self.flush()

    def flush(self):
        if self.buf:
            b, self.buf = self.buf, []
            with _flush_lock:
                self.fn(b)
