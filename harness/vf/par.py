"""Process-parallel map for replay work (fork; the workers import pymoto themselves)."""
import multiprocessing as mp
import os


def chunks(seq, n):
    seq = list(seq)
    k = max(1, (len(seq) + n - 1) // n)
    return [seq[i:i + k] for i in range(0, len(seq), k)]


def pmap(fn, items, nproc=None):
    nproc = nproc or min(14, os.cpu_count() or 1)
    items = list(items)
    if len(items) <= 1 or nproc <= 1:
        return [fn(x) for x in items]
    with mp.get_context("fork").Pool(min(nproc, len(items))) as pool:
        return pool.map(fn, items, chunksize=1)
