"""Check context: accumulates coverage, triages violations against known findings, writes evidence
and replay files, prints the interface lines and decides the exit code."""
import hashlib
import json
import os
import sys
import time

from . import tlc as _tlc

VERIF = _tlc.VERIF
# the mutant self-test redirects evidence and replay files so that it never touches the real ones
_OUT = os.environ.get("VERIF_EVIDENCE_DIR")
EVID = _OUT if _OUT else os.path.join(VERIF, "evidence")
REPLAYS = os.path.join(_OUT, "replays") if _OUT else os.path.join(VERIF, "replays")
KNOWN = os.path.join(VERIF, "known_findings.json")


def canon(obj):
    return json.dumps(obj, sort_keys=True, separators=(",", ":"), default=str)


def sha(obj):
    return hashlib.sha1(canon(obj).encode()).hexdigest()[:16]


def load_known():
    try:
        with open(KNOWN) as fh:
            return json.load(fh)["findings"]
    except FileNotFoundError:
        return []


class Check:
    def __init__(self, pid, tier="quick", seed=0):
        self.pid = pid
        self.tier = tier
        self.seed = int(seed)
        self.t0 = time.time()
        self.states = 0
        self.transitions = 0
        self.traces = 0
        self.evaluations = 0
        self._distinct = set()
        self.samples = []
        self.extra = {}
        self.assumptions = []
        self.violations = []       # (signature, what, replay_path)
        self.known_hits = {}       # key -> [what, count]
        self.known = [k for k in load_known() if k["property"] == pid]
        self.notes = []
        self.tlc_runs = []
        self.exhaustive = False
        self.max_violation_files = 5

    # ---- coverage -------------------------------------------------------------------------
    def tlc(self, module, cfg, label=None, **kw):
        r = _tlc.run(module, cfg, **kw)
        self.states += r.distinct if r.distinct else 0
        self.transitions += r.generated
        self.tlc_runs.append({"module": module, "label": label or module, "distinct": r.distinct,
                              "generated": r.generated, "depth": r.depth, "wall_s": round(r.wall, 2),
                              "violated": r.violated})
        return r

    def tlc_must_hold(self, module, cfg, label=None, **kw):
        """Run an exhaustive TLC check whose invariants/properties must hold; a violation here is a
        violation *of the specification itself* (design-level), reported as machinery failure since
        the specification is ours."""
        budget = kw.pop("budget_s", None)
        if budget is not None:
            # an extra, deeper exploration with a time budget: running out of budget is not a failure of anything - the run is
            # recorded as incomplete and decides nothing
            try:
                r = self.tlc(module, cfg, label=label, timeout=budget, **kw)
            except _tlc.TLCError as e:
                if "timed out" not in str(e):
                    raise
                self.tlc_runs.append({"module": module, "label": label or module, "incomplete": "time budget of %d s exhausted" % budget})
                return None
        else:
            r = self.tlc(module, cfg, label=label, **kw)
        if r.violated is not None:
            raise _tlc.TLCError("specification %s violates %s (design-level error)\n%s"
                                % (module, r.violated, r.stdout[-3000:]))
        return r

    def case(self, case_obj, nontrivial=True):
        """Count one replayed case; distinct non-trivial ones are counted by hash."""
        self.evaluations += 1
        if nontrivial:
            self._distinct.add(sha(case_obj))
        if len(self.samples) < 3:
            self.samples.append(case_obj)

    def count(self, n=1):
        self.evaluations += n

    def add_trace(self, n=1):
        self.traces += n

    # ---- violations -----------------------------------------------------------------------
    def violation(self, signature, what, replay):
        """signature: property-specific key identifying the *kind* of failure (matched against
        known_findings.json). what: one-line description. replay: JSON-serialisable case."""
        for k in self.known:
            if k.get("status") == "open" and k["key"] == signature:
                ent = self.known_hits.setdefault(signature, [k["what"], 0])
                ent[1] += 1
                return False
        if len(self.violations) < 200:
            path = None
            if len(self.violations) < self.max_violation_files:
                d = os.path.join(REPLAYS, self.pid)
                os.makedirs(d, exist_ok=True)
                path = os.path.join(d, sha(replay) + ".json")
                with open(path, "w") as fh:
                    json.dump({"property": self.pid, "signature": signature, "what": what, "case": replay},
                              fh, indent=1, default=str)
            self.violations.append((signature, what, path))
        return True

    # ---- finish ---------------------------------------------------------------------------
    def finish(self, level="model_checking"):
        wall = time.time() - self.t0
        cov = {
            "states": self.states,
            "transitions": self.transitions,
            "traces_validated_against_impl": self.traces,
            "samples": self.samples[:3] if self.samples else [{"note": "no case recorded"}],
            "evaluations": self.evaluations,
            "distinct_nontrivial": len(self._distinct),
            "rule": self.extra.pop("rule", "cases/behaviours are emitted by TLC from the specification; "
                                   "distinct = distinct canonical JSON of the case; trivial cases are "
                                   "flagged by the property module"),
            "exhaustive": bool(self.exhaustive),
            "tlc_runs": self.tlc_runs,
            "known_findings_hit": {k: v[1] for k, v in self.known_hits.items()},
        }
        cov.update(self.extra)
        ev = {
            "property_id": self.pid,
            "tier": self.tier,
            "seed": self.seed,
            "level": level,
            "coverage": cov,
            "assumptions": self.assumptions,
            "wall_s": round(wall, 2),
            "violations": len(self.violations),
        }
        if not getattr(self, "replay_mode", False):     # re-running one stored case does not replace the evidence of the last full run
            os.makedirs(EVID, exist_ok=True)
            with open(os.path.join(EVID, self.pid + ".json"), "w") as fh:
                json.dump(ev, fh, indent=1, default=str)
        for key, (what, n) in sorted(self.known_hits.items()):
            print("KNOWN-FINDING: property=%s %s [key=%s, %d case(s)]" % (self.pid, what, key, n))
        seen = set()
        for sig, what, path in self.violations:
            if path is None:
                continue
            print("VIOLATION property=%s replay=%s" % (self.pid, path))
            if sig not in seen:
                print("  signature=%s: %s" % (sig, what))
                seen.add(sig)
        extra = len([1 for v in self.violations if v[2] is None])
        if extra:
            print("  (+%d further violating cases not written)" % extra)
        if self.violations:
            counts = {}
            for sig, what, path in self.violations:
                counts.setdefault(sig, [0, what])[0] += 1
            for sig, (n, what) in sorted(counts.items()):
                print("  violations by signature: %s x%d  e.g. %s" % (sig, n, what[:160]))
        print("%s %s: states=%d transitions=%d cases=%d distinct=%d traces=%d violations=%d wall=%.1fs"
              % (self.pid, self.tier, self.states, self.transitions, self.evaluations, len(self._distinct),
                 self.traces, len(self.violations), wall))
        return 1 if self.violations else 0


def main(run_fn, pid):
    """Common entry point used by bin/check."""
    import argparse
    ap = argparse.ArgumentParser()
    ap.add_argument("--tier", default=os.environ.get("VERIF_TIER", "quick"))
    ap.add_argument("--replay", default=None)
    a = ap.parse_args(sys.argv[2:])
    tier = a.tier if a.tier in ("quick", "thorough") else "quick"
    seed = int(os.environ.get("VERIF_SEED", "0") or 0)
    chk = Check(pid, tier, seed)
    try:
        if a.replay:
            chk.replay_mode = True
            with open(a.replay) as fh:
                rep = json.load(fh)
            run_fn(chk, replay=rep["case"])
        else:
            run_fn(chk, replay=None)
        rc = chk.finish()
    except _tlc.TLCError as e:
        print("MACHINERY-FAILURE property=%s: %s" % (pid, e), file=sys.stderr)
        rc = 2
    except Exception as e:
        # an unexpected exception: report what was found so far; a crash is never a pass. When the exception was raised inside
        # the library under test (on the admissible inputs the check feeds it - on the unchanged tree no check raises), it is a
        # finding about the library, not a failure of the machinery
        import traceback
        traceback.print_exc()
        repo = os.path.realpath(os.environ.get("PYMOTO_VERIF_REPO", "/repo"))
        frames = traceback.extract_tb(e.__traceback__)
        if frames and os.path.realpath(frames[-1].filename).startswith(repo + os.sep) and not isinstance(e, (MemoryError, KeyboardInterrupt)):
            where = "%s:%d" % (os.path.relpath(os.path.realpath(frames[-1].filename), repo), frames[-1].lineno)
            chk.violation("%s/raise/uncaught" % pid, "the library raised %s: %s (at %s) on an input of this check" % (type(e).__name__, str(e)[:200], where),
                          {"exception": type(e).__name__, "where": where})
        rc = chk.finish() if chk.violations else 2
        if rc != 1:
            print("MACHINERY-FAILURE property=%s: unexpected exception in the harness" % pid, file=sys.stderr)
            rc = 2
    sys.exit(rc)
