"""TLC runner: exhaustive / emitting / simulate / trace-validation runs, with output parsing.

Every run happens in a private scratch directory below /verif/.work (git-ignored) that is removed
afterwards. Specs are read from /verif/spec. Output lines produced by
``PrintT(<<"TAG", ToJson(x)>>)`` are parsed back into Python values.
"""
import json
import os
import re
import shutil
import subprocess
import time
import uuid

VERIF = os.path.dirname(os.path.dirname(os.path.dirname(os.path.abspath(__file__))))
SPEC = os.path.join(VERIF, "spec")
WORK = os.path.join(VERIF, ".work")
JAR = "/opt/veriftools/tla/tla2tools.jar:/opt/veriftools/tla/CommunityModules-deps.jar"


class TLCError(RuntimeError):
    """Machinery failure (TLC crashed, parse error, timeout) -> exit 2."""


class TLCResult:
    def __init__(self):
        self.stdout = ""
        self.generated = 0      # states generated == transitions explored (+ initial states)
        self.distinct = 0
        self.depth = 0
        self.printed = []       # list of (tag, value...) tuples parsed from PrintT lines
        self.violated = None    # name of violated invariant / property, if any
        self.error = None       # other error text
        self.wall = 0.0
        self.coverage = {}      # action name -> (distinct, total) when -coverage was requested

    @property
    def ok(self):
        return self.violated is None and self.error is None


_UNESC = re.compile(r'\\(.)')


def _unescape_tla_string(s):
    # TLC prints strings with \" and \\ escapes (and \n, \t)
    def rep(m):
        c = m.group(1)
        return {"n": "\n", "t": "\t", "r": "\r", "f": "\f"}.get(c, c)
    return _UNESC.sub(rep, s)


_PRINT_RE = re.compile(r'^<<"([A-Z_]+)", (.*)>>$')
_FAST_RE = re.compile(r'^<<"([A-Z_]+)", "')


def parse_printed(line):
    """Parse a line printed by PrintT(<<"TAG", a, b, ...>>) where every further element is either a
    TLA+ string holding JSON (from ToJson) or an integer. Returns (tag, [values]) or None."""
    m = _FAST_RE.match(line)
    if m and line.endswith('">>'):
        body = line[m.end():-3]
        if '", ' not in body:
            # single JSON argument (the common, bulky case): unescape in C speed
            if "\\" in body:
                body = body.replace('\\"', '"').replace("\\\\", "\\")
            try:
                return m.group(1), [json.loads(body)]
            except ValueError:
                pass
    m = _PRINT_RE.match(line)
    if not m:
        return None
    tag, rest = m.group(1), m.group(2)
    vals = []
    i, n = 0, len(rest)
    while i < n:
        c = rest[i]
        if c == '"':
            j = i + 1
            buf = []
            while j < n:
                if rest[j] == '\\':
                    buf.append(rest[j:j + 2])
                    j += 2
                    continue
                if rest[j] == '"':
                    break
                buf.append(rest[j])
                j += 1
            s = _unescape_tla_string("".join(buf))
            try:
                vals.append(json.loads(s))
            except ValueError:
                vals.append(s)
            i = j + 1
        elif c in " ,":
            i += 1
        else:
            j = i
            while j < n and rest[j] not in ",":
                j += 1
            tok = rest[i:j].strip()
            if tok in ("TRUE", "FALSE"):
                vals.append(tok == "TRUE")
            else:
                try:
                    vals.append(int(tok))
                except ValueError:
                    vals.append(tok)
            i = j
    return tag, vals


_purged = []


def _purge_stale(hours=8):
    """run directories left behind by killed checks are removed once they are clearly abandoned"""
    if _purged:
        return
    _purged.append(True)
    now = time.time()
    try:
        for d in os.listdir(WORK):
            pth = os.path.join(WORK, d)
            if d.startswith("tlc-") and now - os.path.getmtime(pth) > hours * 3600:
                shutil.rmtree(pth, ignore_errors=True)
    except OSError:
        pass


def run(module, cfg, *, workers=16, simulate=None, depth=None, seed=None, timeout=3600, sink=None,
        env=None, coverage=False, extra_files=None, java_opts=None, extra_modules=None,
        deadlock=False, dfid=None, keep_stdout=False, expect_violation=False):
    """Run TLC on spec/<module>.tla with configuration text `cfg`.

    simulate: None or number of behaviours (uses -simulate num=..).  depth: simulation depth.
    extra_files: dict name -> text, written into the run directory (e.g. trace files).
    extra_modules: dict name -> TLA+ text for generated modules (written as <name>.tla).
    """
    os.makedirs(WORK, exist_ok=True)
    _purge_stale()
    rd = os.path.join(WORK, "tlc-%s-%d-%s" % (module, os.getpid(), uuid.uuid4().hex[:8]))
    os.makedirs(rd)
    res = TLCResult()
    t0 = time.time()
    try:
        # copy all spec modules so EXTENDS / INSTANCE resolve
        for f in os.listdir(SPEC):
            if f.endswith(".tla"):
                shutil.copy(os.path.join(SPEC, f), os.path.join(rd, f))
        for name, text in (extra_modules or {}).items():
            with open(os.path.join(rd, name + ".tla"), "w") as fh:
                fh.write(text)
        for name, text in (extra_files or {}).items():
            with open(os.path.join(rd, name), "w") as fh:
                fh.write(text)
        with open(os.path.join(rd, module + ".cfg"), "w") as fh:
            fh.write(cfg)
        if workers <= 2:   # emitting / simulating runs are launched many at a time: keep each JVM small
            cmd = ["java", "-XX:+UseSerialGC", "-Xss16m", "-Xmx3g", "-XX:CICompilerCount=2", "-XX:-UsePerfData"]
        else:
            cmd = ["java", "-XX:+UseParallelGC", "-Xss16m"]
        if java_opts:
            cmd += list(java_opts)
        cmd += ["-cp", JAR, "tlc2.TLC", "-metadir", os.path.join(rd, "meta"), "-noGenerateSpecTE",
                "-workers", str(workers), "-config", module + ".cfg"]
        if not deadlock:
            cmd += ["-deadlock"]  # -deadlock DISABLES deadlock checking
        if simulate is not None:
            cmd += ["-simulate", "num=%d" % simulate]
            if depth is not None:
                cmd += ["-depth", str(depth)]
            if seed is not None:
                cmd += ["-seed", str(seed)]
        if dfid is not None:
            cmd += ["-dfid", str(dfid)]
        if coverage:
            cmd += ["-coverage", "1"]
        cmd.append(module + ".tla")
        e = dict(os.environ)
        e.update(env or {})
        # the output is consumed line by line: printed values are parsed (or handed to `sink`) at once, only the other lines are kept
        import collections
        import threading
        p = subprocess.Popen(cmd, cwd=rd, env=e, stdout=subprocess.PIPE, stderr=subprocess.STDOUT, text=True, errors="replace", bufsize=1 << 20)
        fired = []

        def _kill():
            fired.append(True)
            p.kill()
        timer = threading.Timer(timeout, _kill)
        timer.start()
        head, tail = [], collections.deque(maxlen=3000)
        try:
            for line in p.stdout:
                line = line.rstrip("\n")
                if line.startswith('<<"'):
                    pr = parse_printed(line)
                    if pr is not None:
                        if sink is not None:
                            sink(pr[0], pr[1])
                        else:
                            res.printed.append(pr)
                        continue
                (head if len(head) < 400 else tail).append(line)
                m = re.match(r"^(\d+) states generated, (\d+) distinct states found", line)
                if m:
                    res.generated, res.distinct = int(m.group(1)), int(m.group(2))
                    continue
                m = re.match(r"^The depth of the complete state graph search is (\d+)", line)
                if m:
                    res.depth = int(m.group(1))
                    continue
                m = re.match(r"^Error: Invariant (\S+) is violated", line)
                if m:
                    res.violated = m.group(1)
                    continue
                m = re.match(r"^Error: The invariant of (\S+) is equal to FALSE", line)
                if m:
                    res.violated = m.group(1)
                    continue
                m = re.match(r"^Error: Action property (\S+) is violated", line)
                if m:
                    res.violated = m.group(1)
                    continue
                if line.startswith("Error: Temporal properties were violated"):
                    res.violated = res.violated or "TemporalProperty"
                    continue
                if re.match(r"^Error: .*[Pp]ostcondition", line) or "POSTCONDITION" in line and "Error" in line:
                    res.violated = res.violated or "Postcondition"
                    continue
                m = re.match(r"^The number of states generated: (\d+)", line)
                if m and simulate is not None:
                    res.generated = int(m.group(1))
            p.wait()
        finally:
            timer.cancel()
            if p.poll() is None:
                p.kill()
        if fired:
            raise TLCError("TLC timed out after %ss on %s" % (timeout, module))
        out = "\n".join(head + list(tail))
        res.stdout = out
        if res.violated is None:
            idx = ("\n" + out).find("\nError:")
            if idx >= 0:
                res.error = out[idx:idx + 1500]     # the first error line plus a little context
        if coverage:
            for m in re.finditer(r"^<(\w+) line \d+, col \d+ to line \d+, col \d+ of module \w+>: (\d+):(\d+)",
                                 out, re.M):
                name, d, t = m.group(1), int(m.group(2)), int(m.group(3))
                od, ot = res.coverage.get(name, (0, 0))
                res.coverage[name] = (od + d, ot + t)
        res.wall = time.time() - t0
        if res.error is None and res.violated is None and p.returncode != 0:
            res.error = "TLC exit code %d\n%s" % (p.returncode, out[-2000:])
        if res.error is not None and not expect_violation:
            raise TLCError("TLC failed on %s: %s" % (module, res.error))
        return res
    finally:
        shutil.rmtree(rd, ignore_errors=True)


def sany(module_path):
    p = subprocess.run(["java", "-cp", JAR, "tla2sany.SANY", os.path.basename(module_path)],
                       cwd=os.path.dirname(module_path), stdout=subprocess.PIPE, stderr=subprocess.STDOUT, text=True)
    ok = p.returncode == 0 and "Semantic errors" not in p.stdout and "Parse Error" not in p.stdout \
        and "*** Errors" not in p.stdout and "Fatal errors" not in p.stdout
    return ok, p.stdout


# ---------------------------------------------------------------------------------------------
# helpers to generate a model module "MC" that EXTENDS a specification and defines its constants
def tla(v):
    """Python value -> TLA+ expression text."""
    if isinstance(v, bool):
        return "TRUE" if v else "FALSE"
    if isinstance(v, int):
        return str(v) if v >= 0 else "(%d)" % v
    if isinstance(v, str):
        return '"%s"' % v
    if isinstance(v, (list, tuple)):
        return "<<" + ", ".join(tla(x) for x in v) + ">>"
    if isinstance(v, (set, frozenset)):
        return "{" + ", ".join(tla(x) for x in sorted(v, key=repr)) + "}"
    if isinstance(v, dict):
        if not v:
            return "<<>>"
        return "[" + ", ".join("%s |-> %s" % (k, tla(x)) for k, x in v.items()) + "]"
    if isinstance(v, Raw):
        return v.text
    if isinstance(v, SetOf):
        return "{" + ", ".join(tla(x) for x in v.items) + "}"
    raise TypeError("cannot convert %r to TLA+" % (v,))


class Raw:
    def __init__(self, text):
        self.text = text


class SetOf:
    """a TLA+ set of (possibly unhashable) Python values"""
    def __init__(self, items):
        self.items = list(items)


def mc(base, consts, *, spec="Spec", invariants=(), properties=(), constraint=None, view=None,
       postcondition=None, init=None, next_=None, extra_defs="", extends=()):
    """Return (module_name, module_text, cfg_text) for a model of `base` with constant values."""
    name = "MC_" + base
    lines = ["---- MODULE %s ----" % name, "EXTENDS %s" % ", ".join((base,) + tuple(extends))]
    cfg = []
    if extra_defs:
        lines.append(extra_defs)
    for k, v in consts.items():
        lines.append("mc_%s == %s" % (k, tla(v)))
        cfg.append("CONSTANT %s <- mc_%s" % (k, k))
    lines.append("====")
    if init and next_:
        cfg.append("INIT %s" % init)
        cfg.append("NEXT %s" % next_)
    else:
        cfg.append("SPECIFICATION %s" % spec)
    for i in invariants:
        cfg.append("INVARIANT %s" % i)
    for p in properties:
        cfg.append("PROPERTY %s" % p)
    if constraint:
        cfg.append("CONSTRAINT %s" % constraint)
    if view:
        cfg.append("VIEW %s" % view)
    if postcondition:
        cfg.append("POSTCONDITION %s" % postcondition)
    return name, "\n".join(lines) + "\n", "\n".join(cfg) + "\n"
