"""C16 - Aggregations bound the true extreme; active sets select the requested band.

[S] Agg.tla: for every vector up to a length bound over {0,1,2,3} (ties included) and every dyadic
    fraction combination TLC checks that the masks the code can produce (band, then removal along any
    sorted order) are exactly the admissible masks (band minus a lowest / highest set of floor(n*fraction)
    entries) and that a fraction rounding to zero removes nothing; for scaling histories the recurrence
    s_k = d*s_(k-1) + (1-d)*true/approx and exactness without damping.
[R] every case / history is replayed on AggActiveSet and on PNorm(p=1) with AggScaling (exact rationals).
[O] the approximation bounds of PNorm, KSFunction and SoftMinMax (they involve n^(1/p), ln(n)/rho) are
    evaluated numerically for both parameter signs on seeded positive data.
"""
import concurrent.futures as cf

import numpy as np

from vf import par, tlc

FRACS = [(0, 1), (1, 4), (1, 2), (3, 4), (1, 1)]
POOL = [[1, 2, 3], [2, 2, 5], [4, 1, 1, 2], [3], [6, 3, 2, 1, 4]]
DAMPS = [(0, 1), (1, 2), (3, 4)]


def consts(maxlen, variant="faithful", depth=3, vals=(0, 1, 2, 3)):
    return dict(MaxLen=maxlen, Vals=set(vals), Fracs={tuple(f) for f in FRACS}, Variant=variant,
                Pool=POOL, Damps={tuple(d) for d in DAMPS}, Depth=depth)


def q(v):
    return v[0] / v[1]


def emit_sets(maxlen, vals):
    name, mod, cfg = tlc.mc("Agg", consts(maxlen, vals=vals), spec="SpecSet", invariants=["EmitSet"])
    return tlc.run(name, cfg, extra_modules={name: mod}, workers=1, timeout=3000)


def check_sets(chk, maxlen, vals):
    name, mod, cfg = tlc.mc("Agg", consts(maxlen, vals=vals), spec="SpecSet",
                            invariants=["ActiveSetSound", "ZeroFractionRemovesNothing"])
    return chk.tlc_must_hold(name, cfg, label="Agg active set len<=%d over %s" % (maxlen, list(vals)), extra_modules={name: mod})


def check_set_case(c):
    import pymoto as pym
    p = c["par"]
    aset = pym.AggActiveSet(lower_rel=q(p["lower_rel"]), upper_rel=q(p["upper_rel"]), lower_amt=q(p["lower_amt"]), upper_amt=q(p["upper_amt"]))
    x0 = np.array(c["x"], dtype=float)
    masks = [sorted(m) for m in c["masks"]]
    # the active set depends on the data only through (x - min) / (max - min) and the order: every positive affine image of the
    # data must give the same set. Offsets and factors are powers of two, so the normalised values are bit-identical.
    for a, b in ((0.0, 1.0), (2.0 ** 20, 1.0), (1.0, 2.0 ** -20), (0.0, 2.0 ** -30)):
        x = a + b * x0
        sel = aset(x)
        if sel is Ellipsis:
            got = list(range(1, len(x) + 1))
        else:
            got = [int(i) + 1 for i in np.flatnonzero(sel)]
        if got not in masks:
            kind = "all-removed" if not got else ("band" if len(masks) == 1 else "ties")
            return kind, "AggActiveSet(%s)(%s) keeps %s, admissible: %s" % ({k: q(v) for k, v in p.items()}, x.tolist() if (a, b) != (0.0, 1.0) else c["x"], got, masks)
    x = x0
    got = [int(i) + 1 for i in np.flatnonzero(aset(x))] if aset(x) is not Ellipsis else list(range(1, len(x) + 1))
    # the aggregation module applies it: with undamped scaling the output is the true extreme of the kept entries
    if got:
        s = pym.Signal("x", x + 1.0)
        m = pym.PNorm(s, p=3, scaling=pym.AggScaling("max", damping=0.0), active_set=aset)
        m.response()
        if abs(m.sig_out[0].state - np.max((x + 1.0)[np.array(got) - 1])) > 1e-12:
            return "scaled-extreme", "PNorm with undamped scaling and this active set returns %s, extreme of the kept entries is %s" % (
                m.sig_out[0].state, np.max((x + 1.0)[np.array(got) - 1]))
    return None


def _chunk_sets(cases):
    out = []
    for c in cases:
        try:
            out.append(check_set_case(c))
        except Exception as e:
            out.append(("raise", "x=%s par=%s raised %s: %s" % (c["x"], c["par"], type(e).__name__, str(e)[:150])))
    return out


def check_scale_history(h):
    import pymoto as pym
    d = q(h["damping"])
    s = pym.Signal("x")
    m = pym.PNorm(s, p=1, scaling=pym.AggScaling(h["which"], damping=d))
    raw = pym.AggScaling(h["which"], damping=d)
    for i, st in enumerate(h["steps"]):
        s.state = np.array(st["x"], dtype=float)
        m.response()
        out = float(m.sig_out[0].state)
        if abs(m.sf - q(st["sf"])) > 1e-13 * max(1, abs(q(st["sf"]))):
            return "recurrence", "step %d: scale factor %r, specification %s" % (i, m.sf, st["sf"])
        if abs(out - q(st["out"])) > 1e-12 * max(1, abs(q(st["out"]))):
            return "output", "step %d: output %r, specification %s" % (i, out, st["out"])
        r = raw(np.array(st["x"], dtype=float), float(sum(st["x"])))
        if abs(r - q(st["sf"])) > 1e-13 * max(1, abs(q(st["sf"]))):
            return "recurrence", "AggScaling call %d returned %r, specification %s" % (i, r, st["sf"])
    return None


def bounds_observation(chk, seed, n_cases):
    """[O] PNorm / KS / SoftMinMax lie within their known bounds of the true extreme"""
    import pymoto as pym
    rng = np.random.default_rng(seed)
    for _ in range(n_cases):
        n = int(rng.integers(1, 30))
        x = 0.1 + 5 * rng.random(n)
        if rng.random() < 0.2:
            x[:] = x[0]
        # widely spread positive data with a negative parameter (minimum side): exp(parameter * x) underflows harmlessly for the
        # large entries; an implementation must not turn that into an overflow
        wide = rng.random() < 0.25
        if wide:
            x = 1.0 + 80 * rng.random(n)
            x[int(rng.integers(0, n))] = 1.0 + 2 * rng.random()      # the smallest entry stays where exp(parameter * x) is representable
        s = pym.Signal("x", x)
        mx, mn, mean = x.max(), x.min(), x.mean()
        tol = 1e-10
        p = float(rng.choice([-1, -2, -6.5, -20] if wide else [1, 2, 3.5, 8, 20, -1, -2, -6.5, -20]))
        y = float(pym.PNorm(s, p=p).response().sig_out[0].state)
        lo, hi = (mx, n ** (1 / p) * mx) if p > 0 else (n ** (1 / p) * mn, mn)
        chk.count()
        if not (lo * (1 - tol) <= y <= hi * (1 + tol)):
            chk.violation("C16/bound/PNorm", "PNorm(p=%s) = %r outside [%r, %r]" % (p, y, lo, hi), {"x": x.tolist(), "p": p})
        rho = float(rng.choice([-4, -25] if wide else [0.5, 1, 4, 25, -0.5, -1, -4, -25]))
        y = float(pym.KSFunction(s, rho=rho).response().sig_out[0].state)
        lo, hi = (mx, mx + np.log(n) / rho) if rho > 0 else (mn + np.log(n) / rho, mn)
        chk.count()
        if not (lo - tol <= y <= hi + tol):
            chk.violation("C16/bound/KS", "KSFunction(rho=%s) = %r outside [%r, %r]" % (rho, y, lo, hi), {"x": x.tolist(), "rho": rho})
        al = float(rng.choice([-4, -25] if wide else [0.5, 1, 4, 25, -0.5, -1, -4, -25]))
        y = float(pym.SoftMinMax(s, alpha=al).response().sig_out[0].state)
        lo, hi = (mean, mx) if al > 0 else (mn, mean)
        chk.count()
        if not (lo - tol <= y <= hi + tol):
            chk.violation("C16/bound/SoftMinMax", "SoftMinMax(alpha=%s) = %r outside [%r, %r]" % (al, y, lo, hi), {"x": x.tolist(), "alpha": al})


def run(chk, replay=None):
    if replay is not None:
        if "masks" in replay:
            res = check_set_case(replay)
        elif "steps" in replay:
            res = check_scale_history(replay)
        else:
            return
        chk.case(replay)
        if res:
            chk.violation("C16/" + res[0], res[1], replay)
        return
    thorough = chk.tier == "thorough"
    chk.extra["rule"] = ("active-set cases (vector with ties, four dyadic fractions) with the set of admissible masks, and scaling "
                         "histories with exact scale factors, both printed by TLC; plus seeded numerical bound observations")
    chk.assumptions += ["[O] bounds: data for which exp(parameter * extreme entry) is representable (|rho| * min(x) < 700 on the minimum side); beyond that the plain formula of KSFunction underflows to log(0)",
                        "fractions are dyadic so that n*fraction is exact in floating point (the property's floor is taken of the exact product)",
                        "[O] bounds: max <= S_p <= n^(1/p) max, max <= KS <= max + ln n / rho, mean <= softmax <= max (mirrored for negative parameters)"]
    name, mod, cfg = tlc.mc("Agg", consts(3, "minus_zero_slice"), spec="SpecSet", invariants=["ActiveSetSound"])
    r = tlc.run(name, cfg, extra_modules={name: mod}, expect_violation=True)
    if r.violated is None:
        raise tlc.TLCError("negative variant minus_zero_slice of Agg.tla was not refuted")
    spaces = [(5, (0, 1, 2, 3)), (6, (0, 1))] if thorough else [(4, (0, 1, 2, 3)), (5, (0, 1))]
    for ml, vals in spaces:
        check_sets(chk, ml, vals)
    jobs = []
    with cf.ThreadPoolExecutor(max_workers=8) as ex:
        for ml, vals in spaces:
            jobs.append(ex.submit(emit_sets, ml, vals))
        for j in cf.as_completed(jobs):
            r = j.result()
            if r.violated is not None:
                raise tlc.TLCError("Agg.tla violates %s\n%s" % (r.violated, r.stdout[-1500:]))
            chk.states += r.distinct
            chk.transitions += r.generated
            chk.tlc_runs.append({"module": "Agg", "label": "active set", "distinct": r.distinct, "generated": r.generated, "wall_s": round(r.wall, 2)})
            cases = [v[0] for tag, v in r.printed if tag == "SET"]
            for part_c, part in zip(par.chunks(cases, 28), par.pmap(_chunk_sets, par.chunks(cases, 28))):
                for c, res in zip(part_c, part):
                    chk.case({"x": c["x"], "par": c["par"]}, nontrivial=len(set(c["x"])) > 1)
                    if res:
                        chk.violation("C16/activeset/" + res[0], res[1], c)
    name, mod, cfg = tlc.mc("Agg", consts(3, depth=4 if thorough else 3), spec="SpecScale",
                            invariants=["UndampedExact", "EmitScale"], properties=["Recurrence"])
    r = chk.tlc_must_hold(name, cfg, label="Agg scaling histories", extra_modules={name: mod}, workers=1)
    for tag, v in r.printed:
        if tag == "SCALE":
            h = v[0]
            res = check_scale_history(h)
            chk.case({"which": h["which"], "damping": h["damping"], "xs": [s["x"] for s in h["steps"]]})
            if res:
                chk.violation("C16/scaling/" + res[0], res[1], h)
    bounds_observation(chk, chk.seed + 3, 3000 if thorough else 400)
