"""C13 - Structured-grid numbering, connectivity and shape functions are consistent.

[S] Grid.tla: for every grid up to a bound (2D and 3D) and every element-size triple from a rational set TLC
    checks the declarative C13 (bijections, corner sets in the documented local order, per-dof expansion for
    ndof 1..3, partition of unity and non-negativity on a 5^dim lattice, Kronecker property, derivative =
    exact difference quotient) on the operational index formulas.
[R] TLC prints the complete tables per grid; they are compared with DomainDefinition (scalar and array
    arguments, attributes, helper arrays).
"""
import concurrent.futures as cf

import numpy as np

from vf import par, tlc

SIZES = [[[1, 1], [1, 1], [1, 1]], [[1, 2], [3, 2], [2, 1]], [[3, 2], [1, 2], [1, 1]]]


def consts(n2, n3, sizes=SIZES, variant="faithful"):
    return dict(MaxN2=n2, MaxN3=n3, Sizes={tuple(tuple(q) for q in s) for s in sizes}, Variant=variant)


def tla_sizes(sizes):
    return sizes


def q(v):
    return v[0] / v[1]


def check_table(T):
    import pymoto as pym
    g, size = T["grid"], [q(s) for s in T["size"]]
    dom = pym.DomainDefinition(g["nx"], g["ny"], g["nz"], unitx=size[0], unity=size[1], unitz=size[2])
    if (dom.nel, dom.nnodes, dom.dim, dom.elemnodes) != (T["nel"], T["nnodes"], T["dim"], 2 ** T["dim"]):
        return "counts", "nel/nnodes/dim/elemnodes = %s, specification %s" % ((dom.nel, dom.nnodes, dom.dim, dom.elemnodes), (T["nel"], T["nnodes"], T["dim"]))
    E = sorted(T["elems"], key=lambda r: r[1])
    idx = np.array([r[0] for r in E])
    nos = np.array([r[1] for r in E])
    conn = np.array([r[2] for r in E])
    # array arguments
    if not np.array_equal(dom.get_elemnumber(idx[:, 0], idx[:, 1], idx[:, 2]), nos):
        return "elemno", "get_elemnumber (array arguments) differs"
    for (i, j, k), no in zip(idx, nos):   # scalar arguments
        if dom.get_elemnumber(int(i), int(j), int(k)) != no:
            return "elemno", "get_elemnumber(%d,%d,%d) = %s, specification %d" % (i, j, k, dom.get_elemnumber(int(i), int(j), int(k)), no)
        if dom.elements[i, j, k] != no:
            return "elemno", "elements[%d,%d,%d] helper differs" % (i, j, k)
        if not np.array_equal(dom.get_elemconnectivity(int(i), int(j), int(k)), conn[no]):
            return "conn", "get_elemconnectivity(%d,%d,%d) = %s, specification %s" % (i, j, k, dom.get_elemconnectivity(int(i), int(j), int(k)).tolist(), conn[no].tolist())
    if not np.array_equal(dom.conn, conn):
        return "conn", "conn attribute differs from the specification"
    if not np.array_equal(dom.get_elemconnectivity(idx[:, 0], idx[:, 1], idx[:, 2]), conn):
        return "conn", "get_elemconnectivity (array arguments) differs"
    # index arrays of rank 2 / 3 (np.meshgrid(..., indexing='ij'), the idiom the library itself uses)
    gx = [np.arange(max(1, int(idx[:, d].max()) + 1)) for d in range(3)]
    I, J, K = np.meshgrid(*gx, indexing="ij")
    for sl in ((slice(None), slice(None), 0), (slice(None), slice(None), slice(None))):
        ii, jj, kk = I[sl], J[sl], K[sl]
        en = dom.get_elemnumber(ii, jj, kk)
        lut = {tuple(t): no for t, no in zip(idx.tolist(), nos.tolist())}
        exp_no = np.array([lut[(int(a), int(b), int(c_))] for a, b, c_ in zip(ii.ravel(), jj.ravel(), kk.ravel())]).reshape(ii.shape)
        if np.shape(en) != ii.shape or not np.array_equal(en, exp_no):
            return "elemno", "get_elemnumber with index arrays of shape %s differs" % (ii.shape,)
        cn = dom.get_elemconnectivity(ii, jj, kk)
        if np.shape(cn) != ii.shape + (conn.shape[1],) or not np.array_equal(cn, conn[exp_no]):
            return "conn", "get_elemconnectivity with index arrays of shape %s: shape %s, or not the corner nodes of the indexed elements" % (ii.shape, np.shape(cn))
    for nd in (1, 2, 3):
        dc = np.array([r[3][nd - 1] for r in E])
        if not np.array_equal(dom.get_dofconnectivity(nd), dc):
            return "dofconn", "get_dofconnectivity(%d) differs" % nd
    N = sorted(T["nodes"], key=lambda r: r[1])
    nidx = np.array([r[0] for r in N])
    nnos = np.array([r[1] for r in N])
    npos = np.array([[q(v) for v in r[2]] for r in N])
    if not np.array_equal(dom.get_nodenumber(nidx[:, 0], nidx[:, 1], nidx[:, 2]), nnos):
        return "nodeno", "get_nodenumber (array arguments) differs"
    for (i, j, k), no in zip(nidx, nnos):
        if dom.get_nodenumber(int(i), int(j), int(k)) != no or dom.nodes[i, j, k] != no:
            return "nodeno", "get_nodenumber(%d,%d,%d) differs" % (i, j, k)
    got_idx = dom.get_node_indices(nnos)
    if not np.array_equal(got_idx.T, nidx[:, :dom.dim]):
        return "nodeidx", "get_node_indices differs"
    if not np.array_equal(dom.get_node_indices().T, nidx[:, :dom.dim]):
        return "nodeidx", "get_node_indices() (all nodes) differs"
    for no in nnos[:6]:
        if not np.array_equal(np.asarray(dom.get_node_indices(int(no))).ravel(), nidx[no, :dom.dim]):
            return "nodeidx", "get_node_indices(%d) differs" % no
    if not np.allclose(dom.get_node_position(nnos).T, npos[:, :dom.dim], rtol=1e-13, atol=1e-13):
        return "nodepos", "get_node_position differs"
    # all evaluations first, comparisons afterwards: a result must stay what it was when later points are evaluated
    held = []
    for t, Nv, dN in T["shape"]:
        pos = np.array([t[d] / 4 * size[d] for d in range(3)])
        p0 = pos.copy()
        held.append((dom.eval_shape_fun(pos), dom.eval_shape_fun_der(pos)))
        if not np.array_equal(pos, p0):
            return "shape-argument", "evaluating the shape functions changed the position array it was given"
    for (t, Nv, dN), (got, gd_held) in zip(T["shape"], held):
        pos = np.array([t[d] / 4 * size[d] for d in range(3)])
        Ne = np.array([q(v) for v in Nv])
        if got.shape != Ne.shape or not np.allclose(got, Ne, rtol=1e-12, atol=1e-13):
            return "shapefn", "eval_shape_fun(%s) = %s, specification %s" % (pos.tolist(), got.tolist(), Ne.tolist())
        dNe = np.array([[q(v) for v in row] for row in dN])
        gd = gd_held
        if gd.shape != dNe.shape or not np.allclose(gd, dNe, rtol=1e-12, atol=1e-13):
            return "shapeder", "eval_shape_fun_der(%s) = %s, specification %s" % (pos.tolist(), gd.tolist(), dNe.tolist())
    return None


def _check_chunk(tables):
    out = []
    for T in tables:
        try:
            out.append(check_table(T))
        except Exception as e:
            out.append(("raise", "%s: %s" % (type(e).__name__, str(e)[:200])))
    return out


def emit(n2, n3, sizes):
    name, mod, cfg = tlc.mc("Grid", consts(n2, n3, sizes), invariants=["C13", "Emit"])
    return tlc.run(name, cfg, extra_modules={name: mod}, workers=1, timeout=3000)


def run(chk, replay=None):
    if replay is not None:
        res = check_table(replay)
        chk.case({"grid": replay["grid"], "size": replay["size"]})
        if res:
            chk.violation("C13/" + res[0], res[1], replay)
        return
    thorough = chk.tier == "thorough"
    n2, n3 = (7, 4) if thorough else (5, 3)
    chk.extra["rule"] = "one case per (grid, element-size triple): the complete index / connectivity / shape-function tables printed by TLC"
    chk.assumptions += ["element sizes from {1/2, 1, 3/2, 2}; shape functions on the 5^dim lattice of the element"]
    name, mod, cfg = tlc.mc("Grid", consts(2, 1, [SIZES[0]], "local_order_swapped"), invariants=["C13"])
    r = tlc.run(name, cfg, extra_modules={name: mod}, expect_violation=True)
    if r.violated is None:
        raise tlc.TLCError("negative variant local_order_swapped of Grid.tla was not refuted")
    jobs = []
    with cf.ThreadPoolExecutor(max_workers=6) as ex:
        for s in SIZES:
            jobs.append(ex.submit(emit, n2, n3, [s]))
        for j in cf.as_completed(jobs):
            r = j.result()
            if r.violated is not None:
                raise tlc.TLCError("Grid.tla violates %s" % r.violated)
            chk.states += r.distinct
            chk.transitions += r.generated
            chk.tlc_runs.append({"module": "Grid", "label": "C13 + tables", "distinct": r.distinct, "generated": r.generated, "wall_s": round(r.wall, 2)})
            tables = [v[0] for tag, v in r.printed if tag == "CASE"]
            for part_t, part in zip(par.chunks(tables, 14), par.pmap(_check_chunk, par.chunks(tables, 14))):
                for T, res in zip(part_t, part):
                    chk.case({"grid": T["grid"], "size": T["size"]})
                    if res:
                        chk.violation("C13/" + res[0], "grid %s size %s: %s" % (T["grid"], T["size"], res[1]), T)
    chk.exhaustive = True
