"""C19 - finite_difference is a faithful and non-destructive derivative check.

[S] FiniteDiff.tla transcribes the procedure of finite_difference (sub-network selection, analytical pass
    output by output with reset, perturb / response / report / restore per entry, imaginary pass for complex
    entries, zero-structure and relative-step options) over networks of modules with exactly known Jacobians
    on the Gaussian rationals; TLC checks Restored, NoSensLeft, Visited and Verdict (a right adjoint is
    reported with exactly matching pairs on affine networks, a wrong one is not).
[R] every case is run through pymoto.finite_difference with a recording test_fn; the callback sequence
    (x0, dx, analytical, numerical) and the final states / sensitivities are compared with TLC's, with the source
    signals realised as plain Signals, as Signals with an allocated sensitivity, and as SignalSlice views
    (basic slice and index array).
"""
import contextlib
import io

import numpy as np
import scipy.sparse as sps

from vf import tlc


def Qr(n, d=1):
    return (n, d)


def Cq(re, im=0):
    """Gaussian rational from ints / (n, d) pairs"""
    def q(x):
        return x if isinstance(x, tuple) else (x, 1)
    return (q(re), q(im))


def vec(*vals):
    return tuple(Cq(*v) if isinstance(v, tuple) and not (len(v) == 2 and isinstance(v[0], int) and isinstance(v[1], int) and False) else Cq(v) for v in vals)


def V(vals):
    out = []
    for v in vals:
        if isinstance(v, complex):
            out.append(Cq(int(v.real), int(v.imag)))
        else:
            out.append(Cq(v))
    return tuple(out)


def sig(vals, scal=False):
    return dict(scal=scal, v=V(vals))


def cases():
    cs = []

    def add(prog, nsig, init, frm, to, dx=(1, 1), rel=False, keepzero=True, df=None, cplx=None):
        c = dict(id=len(cs) + 1, prog=prog, nsig=nsig, init=init, to=to, dx=dx, rel=rel, keepzero=keepzero)
        c["from"] = frm
        c["df"] = df
        c["cplx"] = cplx if cplx is not None else [False] * len(frm)
        cs.append(c)
    M = lambda k, i, o: dict(k=k, i=i, o=o)
    a, b = sig([1, 2, 0]), sig([3, -1, 2])
    one3, w3 = V([1, 1, 1]), V([2, -1, 3])
    # single modules, all fromsig / tosig choices
    for frm in ([1], [2], [1, 2]):
        add([M("lin", [1, 2], [3])], 3, {1: a, 2: b}, frm, [3], df=[w3])
        add([M("lin", [1, 2], [3])], 3, {1: a, 2: b}, frm, [3], dx=(1, 2), keepzero=False, df=[one3])
    add([M("mul", [1, 2], [3])], 3, {1: a, 2: b}, [1, 2], [3], df=[w3])
    add([M("square", [1], [2])], 2, {1: b}, [1], [2], dx=(1, 4), df=[w3])
    add([M("wrong", [1], [2])], 2, {1: b}, [1], [2], df=[w3])
    add([M("lin", [1, 2], [3])], 3, {1: a, 2: b}, [1, 2], [3], dx=(1, 8), rel=True, df=[w3])
    for to, df in (([2], [w3]), ([3], [one3]), ([2, 3], [w3, one3])):
        add([M("split", [1], [2, 3])], 3, {1: b}, [1], to, df=df)
    add([M("sum", [1], [2])], 2, {1: b}, [1], [2], df=[V([2])])
    add([M("diag", [1], [2])], 2, {1: sig([2, 0, 5])}, [1], [2], df=[V([1, 2, 3, 4, 5, 6, 7, 8, 9])])
    # sparse-matrix output with a relative step, with and without the zero entries
    add([M("diag", [1], [2])], 2, {1: sig([2, 0, -4])}, [1], [2], dx=(1, 8), rel=True, df=[V([1, 2, 3, 4, 5, 6, 7, 8, 9])])
    add([M("diag", [1], [2])], 2, {1: sig([3, 0, 5])}, [1], [2], dx=(1, 4), rel=True, keepzero=False, df=[V([2, 0, 1, 0, 3, 0, 1, 0, -1])])
    # complex data: holomorphic and real-valued non-holomorphic maps, both directions
    z = sig([1 + 2j, -1j, 2])
    add([M("cscale", [1], [2])], 2, {1: z}, [1], [2], df=[V([1 + 1j, 2, -1j])], cplx=[True])
    add([M("absq", [1], [2])], 2, {1: z}, [1], [2], dx=(1, 2), df=[V([1, 2, 3])], cplx=[True])
    add([M("mul", [1, 2], [3])], 3, {1: z, 2: sig([2, 1 + 1j, -1])}, [1, 2], [3], df=[V([1, 1j, 2 - 1j])], cplx=[True, True])
    # scalar (non-iterable) input
    add([M("cscale", [1], [2])], 2, {1: sig([3], scal=True)}, [1], [2], df=[V([2 + 1j])])
    add([M("square", [1], [2])], 2, {1: sig([0], scal=True)}, [1], [2], dx=(1, 2), df=[V([3])])
    add([M("cscale", [1], [2])], 2, {1: sig([2 + 1j], scal=True)}, [1], [2], df=[V([1 - 1j])], cplx=[True])
    add([M("absq", [1], [2])], 2, {1: sig([1 - 2j], scal=True)}, [1], [2], dx=(1, 2), df=[V([2])], cplx=[True])
    # six-entry inputs: realised as vectors and as 2 x 3 arrays in column-major memory (the entry <-> sensitivity pairing must follow the index)
    a6, b6, w6 = sig([1, 2, 0, 3, -1, 4]), sig([3, -1, 2, 5, 1, -2]), V([2, -1, 3, 1, 4, -3])
    add([M("mul", [1, 2], [3])], 3, {1: a6, 2: b6}, [1, 2], [3], df=[w6])
    add([M("square", [1], [2])], 2, {1: b6}, [1], [2], dx=(1, 4), df=[w6])
    add([M("mul", [1, 2], [3])], 3, {1: sig([1 + 2j, -1j, 2, 3, 1 - 1j, -2]), 2: b6}, [1, 2], [3], df=[V([1, 1j, 2 - 1j, 3, -1, 2j])], cplx=[True, True])
    # networks: sub-network selection by fromsig / tosig
    chain = [M("wrong", [1], [3]), M("mul", [3, 2], [4]), M("lin", [4, 3], [5]), M("sum", [5], [6])]
    for frm, to, df in (([1], [6], [V([2])]), ([3], [5], [w3]), ([2], [4], [one3]), ([3, 2], [6], [V([1])]), ([4], [5, 6], [w3, V([3])]), ([1, 2], [4, 5], [w3, one3])):
        add(chain, 6, {1: a, 2: b}, frm, to, df=df)
    chain2 = [M("lin", [1, 2], [3]), M("split", [3], [4, 5]), M("lin", [4, 5], [6])]
    for frm, to, df in (([1, 2], [6], [w3]), ([3], [4], [one3]), ([4], [6], [w3]), ([2], [5, 6], [one3, w3])):
        add(chain2, 6, {1: a, 2: b}, frm, to, dx=(1, 2), df=df)
    return cs


def to_tla(c):
    d = dict(c)
    d["init"] = tlc.Raw("[s \\in {%s} |-> CASE %s]" % (", ".join(str(k) for k in c["init"]),
                                                       " [] ".join("s = %d -> %s" % (k, tlc.tla(v)) for k, v in c["init"].items())))
    return d


# ---- the same modules in pymoto -------------------------------------------------------------------
def make_classes():
    import pymoto as pym

    class Lin(pym.Module):
        def _response(self, a, b):
            return 2 * a - b

        def _sensitivity(self, dy):
            return 2 * dy, -dy

    class Mul(pym.Module):
        def _response(self, a, b):
            self.a, self.b = a, b
            return a * b

        def _sensitivity(self, dy):
            return self.b * dy, self.a * dy

    class Square(pym.Module):
        def _response(self, a):
            self.a = a
            return a * a

        def _sensitivity(self, dy):
            return 2 * self.a * dy

    class Wrong(pym.Module):
        def _response(self, a):
            return 3 * a

        def _sensitivity(self, dy):
            return 2 * dy

    class CScale(pym.Module):
        def _response(self, a):
            return (1 + 2j) * a

        def _sensitivity(self, dy):
            return (1 + 2j) * dy

    class AbsQ(pym.Module):
        def _response(self, z):
            self.z = z
            return np.real(z * np.conj(z))

        def _sensitivity(self, dy):
            return 2 * np.conj(self.z) * dy

    class Sum(pym.Module):
        def _response(self, a):
            self.n = len(a)
            return float(np.sum(a)) if np.isrealobj(a) else complex(np.sum(a))

        def _sensitivity(self, dy):
            return dy * np.ones(self.n)

    class Split(pym.Module):
        def _response(self, a):
            return 2 * a, 3 * a

        def _sensitivity(self, d1, d2):
            g = 0
            if d1 is not None:
                g = g + 2 * d1
            if d2 is not None:
                g = g + 3 * d2
            return g

    class Diag(pym.Module):
        def _response(self, a):
            return sps.diags(a).tocsc()

        def _sensitivity(self, dY):
            return np.diag(np.asarray(dY)).copy()
    return dict(lin=Lin, mul=Mul, square=Square, wrong=Wrong, cscale=CScale, absq=AbsQ, sum=Sum, split=Split, diag=Diag)


_CL = None


def cval(v):
    return complex(v[0][0] / v[0][1], v[1][0] / v[1][1])


def concrete(sigdef, cplx):
    vals = [cval(v) for v in sigdef["v"]]
    if sigdef["scal"]:
        x = vals[0]
        return x if (cplx or x.imag != 0) else x.real
    arr = np.array(vals)
    return arr if (cplx or np.any(arr.imag != 0)) else arr.real.copy()


REALISATIONS = ("plain", "prealloc", "slice", "slice-indexarray")
TINY = 2.0 ** -27       # non-zero entries of magnitude 7.5e-9: still entries to be perturbed and reported


def homogeneous(c):
    return all(m["k"] in ("lin", "split", "sum") for m in c["prog"]) and not c["rel"]


def run_case(c, expected, real="plain"):
    """real: how the source signals exist in the library - plain Signals, Signals constructed with an allocated sensitivity
    (reset() then zeroes it in place instead of dropping it), or SignalSlice views into a larger signal"""
    global _CL
    import pymoto as pym
    if _CL is None:
        _CL = make_classes()
    sigs = {s: pym.Signal("s%d" % s) for s in range(1, c["nsig"] + 1)}
    cplx_of = {s: False for s in sigs}
    for q, s in enumerate(c["from"]):
        cplx_of[s] = c["cplx"][q]
    parents = {}
    for s, d in c["init"].items():
        st = concrete(d, cplx_of[s] or any(v[1][0] != 0 for v in d["v"]))
        if real == "tiny":
            st = st * TINY          # the same problem in units of 2^-27: homogeneous linear programs report the same derivatives
        if real == "prealloc":
            sigs[s] = pym.Signal("s%d" % s, st, np.zeros_like(st) if isinstance(st, np.ndarray) else 0 * st)
        elif real in ("slice", "slice-indexarray") and isinstance(st, np.ndarray):
            big = np.concatenate([[9.0], st, [7.0, 5.0]])
            parents[s] = (pym.Signal("p%d" % s, big), big.copy())
            # a basic slice is a view of the parent's array; an index array hands out copies and writes back through the setter
            sigs[s] = parents[s][0][1:1 + st.size] if real == "slice" else parents[s][0][np.arange(1, 1 + st.size)]
        elif real == "fortran2d":
            sigs[s].state = np.asfortranarray(st.reshape(2, 3))
        else:
            sigs[s].state = st
    mods = [_CL[m["k"]]([sigs[i] for i in m["i"]], [sigs[o] for o in m["o"]]) for m in c["prog"]]
    blk = mods[0] if len(mods) == 1 else pym.Network(mods)
    if len(mods) > 1 or True:
        # make every intermediate signal available (finite_difference precomputes only the modules before the sub-network)
        pass
    init_states = {s: (np.array(sigs[s].state, copy=True) if isinstance(sigs[s].state, np.ndarray) else sigs[s].state) for s in c["init"]}
    dfs = []
    for o, s in enumerate(c["to"]):
        w = [cval(v) for v in c["df"][o]]
        pm = c["prog"][[i for i, m in enumerate(c["prog"]) if s in m["o"]][0]]
        kind = pm["k"]
        scalar_out = kind == "sum" or (kind in ("cscale", "square", "wrong", "absq") and pm["i"][0] in c["init"] and c["init"][pm["i"][0]]["scal"])
        if scalar_out:
            dfs.append(w[0] if w[0].imag != 0 else w[0].real)
        elif kind == "diag":
            n = int(round(len(w) ** 0.5))
            dfs.append(np.array(w).real.reshape(n, n))
        else:
            arr = np.array(w)
            arr = arr if np.any(arr.imag != 0) else arr.real.copy()
            dfs.append(np.asfortranarray(arr.reshape(2, 3)) if real == "fortran2d" else arr)
    log = []

    def rec(x0, dx, an, fd):
        log.append((complex(x0), float(dx), float(an), float(fd)))
    dx = c["dx"][0] / c["dx"][1] * (TINY if real == "tiny" else 1.0)
    if len(mods) > 1:
        # the procedure needs the states of the signals it starts from (it runs the preceding modules itself)
        pass
    with contextlib.redirect_stdout(io.StringIO()):
        try:
            pym.finite_difference(blk, fromsig=[sigs[s] for s in c["from"]], tosig=[sigs[s] for s in c["to"]], dx=dx,
                                  relative_dx=c["rel"], use_df=dfs, test_fn=rec, keep_zero_structure=c["keepzero"], verbose=False)
        except Exception as e:
            return "raise", "finite_difference raised %s: %s" % (type(e).__name__, str(e)[:200])
    exp = expected["log"]
    if len(log) != len(exp):
        return "callbacks/count", "test_fn was called %d times, the specification reports %d entries" % (len(log), len(exp))
    # the specification orders reports per input, entry, direction, output - as the code does
    if real == "fortran2d":
        # the order in which the entries of a multi-dimensional input are visited is not fixed by the property: compare per input
        # (the reports of one input are consecutive) the reports as a multiset, keyed by the specification's values
        keyf = lambda an, fd: (round(an * 4096), round(fd * 4096))
        order, pos = [], 0
        for qv in sorted(set(e["q"] for e in exp)):
            idx = [i for i, e in enumerate(exp) if e["q"] == qv]
            blk_got = sorted(log[idx[0]:idx[-1] + 1], key=lambda g: keyf(g[2], g[3]))
            blk_exp = sorted((exp[i] for i in idx), key=lambda e: keyf(e["an"][0] / e["an"][1], e["fd"][0] / e["fd"][1]))
            order += list(zip(blk_got, blk_exp))
        pairs = order
    else:
        pairs = list(zip(log, exp))
    for i, (got, e) in enumerate(pairs):
        an, fd = e["an"][0] / e["an"][1], e["fd"][0] / e["fd"][1]
        if abs(got[2] - an) > 1e-9 * max(1.0, abs(an)):
            return "analytical", "report %d (input %d entry %d output %d%s): analytical %r, specification %r" % (i, e["q"], e["e"], e["o"], " imag" if e["im"] else "", got[2], an)
        if abs(got[3] - fd) > 1e-7 * max(1.0, abs(fd)):
            return "numerical", "report %d (input %d entry %d output %d%s): numerical %r, specification %r" % (i, e["q"], e["e"], e["o"], " imag" if e["im"] else "", got[3], fd)
        if abs(got[1] - dx) > 0:
            return "dx", "test_fn received dx = %r" % got[1]
    for q, s in enumerate(c["from"]):
        st = sigs[s].state
        fin = np.array([cval(v) for v in expected["final"][q]]) * (TINY if real == "tiny" else 1.0)
        if np.ndim(st) == 0:
            if complex(st) != fin[0]:
                return "restore", "input %d is %r after the call, it was %r" % (q, st, fin[0])
        elif not np.array_equal(np.asarray(st, dtype=complex).reshape(-1), fin):
            return "restore", "input %d is %s after the call, it was %s" % (q, np.asarray(st).tolist(), fin.tolist())
    for s, st0 in init_states.items():
        st = sigs[s].state
        same = np.array_equal(st, st0) if isinstance(st0, np.ndarray) else st == st0
        if not same:
            return "restore", "source signal %d was changed by the call" % s
    for s, (par, big0) in parents.items():
        if not np.array_equal(par.state, big0):
            return "restore", "the signal that source %d is a slice of was changed by the call" % s
    for s in list(sigs.values()) + [p for p, _ in parents.values()]:
        if s.sensitivity is not None and np.any(np.asarray(s.sensitivity) != 0):
            return "sens-left", "signal %s still holds a sensitivity after the call" % s.tag
    return None


def run(chk, replay=None):
    cs = cases()
    chk.extra["rule"] = ("one case per (network of modules with exactly known Jacobians incl. a deliberately wrong adjoint, fromsig, tosig, dx, "
                         "relative_dx, keep_zero_structure, seeds); the complete callback sequence is printed by TLC")
    chk.assumptions += ["perturbing an input whose state is a sparse matrix is outside the admissible inputs (nditer rejects it)",
                        "fromsig / tosig are given explicitly (the default of a Network comes from a Python set)",
                        "dyadic dx and integer data make every difference quotient exact"]
    if replay is not None:
        cs = [c for c in cs if c["id"] == replay["id"]]
    name, mod, cfg = tlc.mc("FiniteDiff", dict(Cases=tlc.SetOf([to_tla(c) for c in cs])),
                            invariants=["Restored", "NoSensLeft", "Visited", "Verdict", "Emit"])
    r = chk.tlc_must_hold(name, cfg, label="FiniteDiff on %d cases" % len(cs), extra_modules={name: mod}, workers=1)
    exp = {v[0]["id"]: v[0] for tag, v in r.printed if tag == "FD"}
    if len(exp) != len(cs):
        raise tlc.TLCError("FiniteDiff emitted %d of %d cases" % (len(exp), len(cs)))
    for c in cs:
        six = all(len(d["v"]) == 6 for d in c["init"].values())
        for real in ((REALISATIONS + (("tiny",) if homogeneous(c) else ()) + (("fortran2d",) if six else ())) if replay is None else [replay.get("signals", "plain")]):
            res = run_case(c, exp[c["id"]], real)
            key = {"id": c["id"], "prog": [[m["k"], m["i"], m["o"]] for m in c["prog"]], "from": c["from"], "to": c["to"], "dx": c["dx"],
                   "rel": c["rel"], "keepzero": c["keepzero"], "signals": real}
            chk.case(key)
            if res:
                chk.violation("C19/" + res[0], "case %d %s [%s source signals]: %s" % (c["id"], key["prog"], real, res[1]), key)
