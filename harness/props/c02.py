"""C02 - Network backpropagation yields the total derivative of any module graph.

[S] Network.tla: programs (module graphs) are built nondeterministically; TLC checks that reverse-order
    backpropagation with the skip rule and add_sensitivity accumulation leaves on every source signal
    the total derivative defined independently by forward-mode tangents (TotalDerivative), that
    signals no seed depends on keep no sensitivity (NoSeedNoSens), that reset leaves nothing, and that
    states are untouched by seed / sensitivity / reset.
[R] every emitted program is instantiated in pymoto (user-defined modules and library modules,
    SignalSlice inputs, nested Networks) and the states / sensitivities of all signals after every
    module's response(), sensitivity() and reset() - observed by wrapping the bound methods on the
    instances - are compared with TLC's.
"""
import concurrent.futures as cf

import zlib

import numpy as np

from vf import par, tlc

ALL_KINDS = ["Sc", "Lin", "Add", "Mul", "Split", "Cat", "Dot"]
DYAD_KINDS = {"Sc", "Lin", "Add", "Split"}     # kinds whose adjoint can be carried by DyadCarrier sensitivities
INVS = ["TotalDerivative", "NoSeedNoSens", "ResetLeavesNothing"]
PROPS = ["StatesUntouched"]
SRC = {1: [1.0, 2.0], 2: [3.0, -1.0]}


def consts(maxmods, kinds=ALL_KINDS, slices=("none", "head", "fancy"), nest=False, record=False,
           variant="faithful", first=None):
    return dict(MaxMods=maxmods, Kinds=set(kinds), SliceKinds=set(slices), FirstKinds=set(first or kinds),
                AllowNest=nest, Record=record, Variant=variant)


def model_check(chk, label, c, expect_violation=False, budget_s=None):
    name, mod, cfg = tlc.mc("Network", c, invariants=INVS, properties=PROPS)
    if expect_violation:
        return tlc.run(name, cfg, extra_modules={name: mod}, expect_violation=True)
    return chk.tlc_must_hold(name, cfg, label=label, extra_modules={name: mod}, **({"budget_s": budget_s} if budget_s else {}))


def emit(c, simulate=None, seed=0, depth=60):
    name, mod, cfg = tlc.mc("Network", dict(c, Record=True), invariants=["Emit"])
    return tlc.run(name, cfg, extra_modules={name: mod}, workers=1, simulate=simulate, depth=depth if simulate else None,
                   seed=seed, timeout=3000)


# ------------------------------------------------------------------------------------------------
def make_module_classes():
    import pymoto as pym

    class VSc(pym.Module):
        def _response(self, x):
            return 3 * x

        def _sensitivity(self, dy):
            return 3 * dy

    class VLin(pym.Module):
        def _response(self, a, b):
            return 2 * a - b

        def _sensitivity(self, dy):
            return 2 * dy, -dy

    class VAdd(pym.Module):
        def _response(self, a, b):
            return a + b

        def _sensitivity(self, dy):
            return dy, dy          # the very same object for both inputs

    class VMul(pym.Module):
        def _response(self, a, b):
            self.a, self.b = a, b
            return a * b

        def _sensitivity(self, dy):
            return self.b * dy, self.a * dy

    class VSplit(pym.Module):
        def _response(self, a):
            return 2 * a, 3 * a

        def _sensitivity(self, d1, d2):
            g = 0
            if d1 is not None:
                g = g + 2 * d1
            if d2 is not None:
                g = g + 3 * d2
            return g

    class VCat(pym.Module):
        def _response(self, a, b):
            self.n = len(a)
            return np.concatenate([a, b])

        def _sensitivity(self, dy):
            return dy[:self.n].copy(), dy[self.n:].copy()

    class VDot(pym.Module):
        def _response(self, a, b):
            self.a, self.b = a, b
            return np.array([a @ b])

        def _sensitivity(self, dy):
            return dy[0] * self.b, dy[0] * self.a

    return dict(Sc=VSc, Lin=VLin, Add=VAdd, Mul=VMul, Split=VSplit, Cat=VCat, Dot=VDot)


_CLASSES = None


def pyindex(pos):
    """positions (1-based) -> python index with the same meaning: contiguous ascending -> basic slice,
    otherwise an integer array"""
    if all(pos[i + 1] == pos[i] + 1 for i in range(len(pos) - 1)):
        return slice(pos[0] - 1, pos[-1])
    return np.array(pos) - 1


def build(prog, slen, realisation):
    """instantiate the program; returns (network, signals dict, flat module list)"""
    global _CLASSES
    import pymoto as pym
    if _CLASSES is None:
        _CLASSES = make_module_classes()
    nsig = len(slen)
    sig = {s: pym.Signal("s%d" % s) for s in range(1, nsig + 1)}
    for s, v in SRC.items():
        sig[s].state = np.array(v)
    flat = []
    stack = [[]]
    for m in prog:
        if m["kind"] == "(":
            stack.append([])
        elif m["kind"] == ")":
            inner = stack.pop()
            stack[-1].append(pym.Network(inner, print_timing=True) if realisation == "timed" else pym.Network(inner))
        else:
            ins = [sig[r["sig"]] if not r["pos"] else sig[r["sig"]][pyindex(r["pos"])] for r in m["ins"]]
            outs = [sig[o] for o in m["outs"]]
            k = m["kind"]
            if realisation == "lib" and k == "Mul":
                mod = pym.EinSum(ins, outs, expression="i,i->i")
            elif realisation == "lib" and k == "Cat":
                mod = pym.ConcatSignal(ins, outs)
            else:
                mod = _CLASSES[k](ins, outs)
            stack[-1].append(mod)
            flat.append(mod)
    if realisation == "timed":
        # the other documented way of driving a network: modules appended one by one, timing enabled with a threshold
        net = pym.Network(print_timing=1e9)
        for mod in stack[0]:
            net.append(mod)
    else:
        net = pym.Network(stack[0])
    return net, sig, flat


def proj(x):
    if x is None:
        return None
    if hasattr(x, "todense") and hasattr(x, "n_dyads"):
        d = np.asarray(x.todense(), dtype=float).ravel()
        x = d if d.size else None
        if x is None:
            return None
    a = np.asarray(x, dtype=float).ravel()
    r = np.round(a)
    if np.any(np.abs(a - r) > 1e-9):
        return ["non-integral"] + [float(v) for v in a]
    return [int(v) for v in r]


def same_sens(exp, got):
    """None and the zero vector are the same sensitivity (nothing contributed)"""
    e = None if (exp == [] or exp is None) else exp
    if e is None:
        return got is None or all(v == 0 for v in got)
    if got is None:
        return all(v == 0 for v in e)
    return e == got


def same_state(exp, got):
    if exp == []:
        return got is None
    return exp == got


def replay_program(case, realisation):
    prog, slen, seeded, steps = case["prog"], case["slen"], case["seeded"], case["steps"]
    net, sig, flat = build(prog, slen, realisation)
    nsig = len(slen)
    log = []

    def snap():
        return ([proj(sig[s].state) for s in range(1, nsig + 1)], [proj(sig[s].sensitivity) for s in range(1, nsig + 1)])

    called = {}
    for idx, m in enumerate(flat, 1):
        def mk(m=m, idx=idx):
            r0, s0, z0, a0 = m.response, m.sensitivity, m.reset, m._sensitivity

            def response():
                r = r0()
                log.append(("Fwd", idx, True, snap()))
                return r

            def adj(*a):
                called[idx] = True
                return a0(*a)

            def sensitivity():
                called[idx] = False
                r = s0()
                log.append(("Bwd", idx, called[idx], snap()))
                return r

            def reset():
                r = z0()
                log.append(("Reset", idx, True, snap()))
                return r
            m.response, m.sensitivity, m.reset, m._sensitivity = response, sensitivity, reset, adj
        mk()
    import contextlib
    import io
    quiet = contextlib.redirect_stdout(io.StringIO()) if realisation == "timed" else contextlib.nullcontext()
    try:
      with quiet:
        net.response()
        for o in seeded:
            w = np.array([1 + ((o + i) % 3) for i in range(1, slen[o - 1] + 1)], dtype=float)
            if realisation == "dyad":
                import pymoto as pym
                w = pym.DyadCarrier([w], [np.array([1.0])])      # sensitivities carried as dyads (as for sparse matrices)
            sig[o].sensitivity = w
        log.append(("Seed", 0, True, snap()))
        net.sensitivity()
        net.reset()
    except Exception as e:
        return len(log), "exception", "raised %s: %s" % (type(e).__name__, str(e)[:300]), None
    if len(log) != len(steps):
        return min(len(log), len(steps)), "step-count", "code took %d observable steps, specification %d" % (len(log), len(steps)), None
    for i, (stp, (op, k, cl, (vs, ss))) in enumerate(zip(steps, log)):
        if stp["op"] != op or stp["k"] != k:
            return i, "order", "step %d: code did %s(%d), specification %s(%d)" % (i, op, k, stp["op"], stp["k"]), None
        if op == "Bwd" and stp["called"] != cl:
            return i, "skip-rule", "Bwd(%d): _sensitivity %s but specification says %s" % (k, "called" if cl else "skipped", "called" if stp["called"] else "skipped"), None
        for s in range(nsig):
            if not same_state(stp["val"][s], vs[s]):
                return i, "state", "%s(%d): state of signal %d is %s, specification %s" % (op, k, s + 1, vs[s], stp["val"][s]), None
            if not same_sens(stp["sens"][s], ss[s]):
                return i, "sens", "%s(%d): sensitivity of signal %d is %s, specification %s" % (op, k, s + 1, ss[s], stp["sens"][s]), None
    return None


def _replay_chunk(cases):
    out = []
    for case in cases:
        for real in ("user", "lib", "dyad", "timed"):
            if real == "timed" and zlib.crc32(repr((case["prog"], case["seeded"])).encode()) % 3:
                continue        # timing enabled / modules appended one by one: a third of the cases
            if real == "lib" and not any(m["kind"] in ("Mul", "Cat") for m in case["prog"]):
                continue
            if real == "dyad" and not all(m["kind"] in DYAD_KINDS | {"(", ")"} and all(not r["pos"] for r in m["ins"]) for m in case["prog"]):
                continue
            res = replay_program(case, real)
            key = {"prog": [[m["kind"], [[r["sig"], r["pos"]] for r in m["ins"]]] for m in case["prog"]],
                   "seeded": case["seeded"], "realisation": real}
            out.append((key, res, case if res is not None else None))
    return out


def check_cases(chk, cases):
    for part in par.pmap(_replay_chunk, par.chunks(cases, 28)):
        for key, res, case in part:
            nontriv = len(key["prog"]) >= 1
            chk.case(key, nontrivial=nontriv)
            if res is not None:
                i, kind, what, _ = res
                op = case["steps"][i]["op"] if i < len(case["steps"]) else "?"
                chk.violation("C02/%s/%s" % (kind, op), what, dict(case, realisation=key["realisation"], failing_step=i))


def module_init_contract(chk):
    """growth beyond the listed clauses: Module.__init__ signature checking and output creation against ModuleInit.tla"""
    import pymoto as pym
    name, mod, cfg = tlc.mc("ModuleInit", {}, invariants=["CheckSound", "InitSound", "Emit"])
    r = chk.tlc_must_hold(name, cfg, label="ModuleInit contract", extra_modules={name: mod}, workers=1)

    def params(sg):
        ps = ["self"] + ["a%d" % i for i in range(sg["pos"])]
        if sg["dflt"]:
            ps[-1] = ps[-1] + "=None"
        if sg["varpos"]:
            ps.append("*args")
        if sg["kwonly"]:
            ps.append("kw=None" if sg["varpos"] else "*, kw=None")
        if sg["varkw"]:
            ps.append("**kwargs")
        return ", ".join(ps)
    cache = {}
    n = 0
    for tag, v in r.printed:
        if tag != "INIT":
            continue
        c = v[0]
        key = (params(c["rs"]), params(c["ss"]))
        if key not in cache:
            import linecache
            ns = {"pym": pym}
            src = "class M(pym.Module):\n    def _response(%s):\n        return None\n    def _sensitivity(%s):\n        return None\n" % key
            fname = "<moduleinit-%d>" % len(cache)
            linecache.cache[fname] = (len(src), None, src.splitlines(True), fname)     # error messages of Module read the source
            exec(compile(src, fname, "exec"), ns)
            cache[key] = ns["M"]
        ins = [pym.Signal("i%d" % i) for i in range(c["nin"])]
        outs = [pym.Signal("o%d" % i) for i in range(c["nout"])]
        try:
            m = cache[key](ins, outs if outs else None)
            got = {"res": "ok", "nout": len(m.sig_out)}
            names = [s.tag for s in m.sig_out]
        except SyntaxError:
            got = {"res": "SyntaxError", "nout": 0}
        except TypeError:
            got = {"res": "TypeError", "nout": 0}
        except Exception as e:
            got = {"res": type(e).__name__, "nout": 0}
        n += 1
        if n % 50 == 0 or got != c["out"]:
            chk.case({"module-init": [c["rs"], c["ss"], c["nin"], c["nout"]]})
        if got != c["out"]:
            chk.violation("C02/module-init", "Module with _response(%s), _sensitivity(%s), %d inputs, %d outputs: %s, specification %s"
                          % (key[0], key[1], c["nin"], c["nout"], got, c["out"]), c)
        elif got["res"] == "ok" and c["nout"] == 0 and got["nout"] > 0 and names != ["M_output%d" % i for i in range(got["nout"])]:
            chk.violation("C02/module-init/names", "automatically created outputs are named %s" % names, c)
    chk.count(n)
    # Network.append: inputs = consumed but not produced, outputs = everything produced
    class P(pym.Module):
        def _response(self, *a):
            return [0] * len(self.sig_out)

        def _sensitivity(self, *a):
            return [None] * len(self.sig_in)
    sg = [pym.Signal("s%d" % i) for i in range(6)]
    for wiring in ([([0, 1], [2]), ([2], [3, 4]), ([4, 0], [5])], [([0], [1]), ([1], [2])], [([0, 1], [2]), ([0], [3])], [([0], [0 + 1]), ([1, 1], [2]), ([3], [4])]):
        net = pym.Network([P([sg[i] for i in a], [sg[i] for i in b]) for a, b in wiring])
        cons = {i for a, b in wiring for i in a}
        prod = {i for a, b in wiring for i in b}
        chk.case({"network-sets": wiring})
        if {id(s) for s in net.sig_in} != {id(sg[i]) for i in cons - prod} or {id(s) for s in net.sig_out} != {id(sg[i]) for i in prod}:
            chk.violation("C02/network-sets", "Network%s: sig_in / sig_out differ from consumed-not-produced / produced" % (wiring,), {"wiring": wiring})


def library_network_traces(chk, thorough):
    """[T] code -> spec: the protocol observed on real library networks driven by minimize_mma, minimize_oc and finite_difference"""
    import json
    import nettrace
    traces = []
    tid = 0
    for seed in range(3 if thorough else 1):
        for kind in ("mma", "oc", "fd"):
            tid += 1
            traces.append(nettrace.record(chk.seed + seed, tid, kind))
    cfg = "SPECIFICATION TraceSpec\nINVARIANT Progress\nPOSTCONDITION Report\n"
    slim = [{k: t[k] for k in ("tid", "mods", "events")} for t in traces]
    r = chk.tlc("TraceNetwork", cfg, label="TraceNetwork batch of %d" % len(traces), workers=1,
                extra_files={"traces.json": json.dumps(slim)}, env={"TRACE_FILE": "traces.json"}, timeout=3000)
    if r.violated is not None:
        raise tlc.TLCError("TraceNetwork: unexpected TLC verdict %s\n%s" % (r.violated, r.stdout[-2000:]))
    verdict = {vals[0]: (vals[1], vals[2]) for tag, vals in r.printed if tag == "TRACE"}
    for tr in traces:
        chk.add_trace()
        chk.case({"library-network": tr["kind"], "tid": tr["tid"], "events": len(tr["events"])}, nontrivial=len(tr["events"]) > 10)
        if tr["error"]:
            chk.violation("C02/trace/raise", "%s on the compliance network raised %s" % (tr["kind"], tr["error"]), {"kind": tr["kind"]})
            continue
        matched, need = verdict[tr["tid"]]
        if matched != need:
            e = tr["events"][matched - 1] if 0 <= matched - 1 < len(tr["events"]) else {}
            chk.violation("C02/trace/%s" % e.get("op", "?"), "%s run: event %d (%s of module %s, invoked=%s) is not allowed by TraceNetwork.tla"
                          % (tr["kind"], matched - 1, e.get("op"), e.get("k"), e.get("called")), {"kind": tr["kind"], "event": e, "index": matched - 1})


def run(chk, replay=None):
    if replay is not None:
        res = replay_program(replay, replay.get("realisation", "user"))
        chk.case(replay)
        if res is not None:
            chk.violation("C02/%s" % res[1], res[2], replay)
        return
    thorough = chk.tier == "thorough"
    chk.extra["rule"] = ("a case is a program (sequence of modules with input references, nesting markers) plus a seed set, "
                         "emitted by TLC from Network.tla with the expected state/sensitivity of every signal after every "
                         "module step; replayed with user-defined modules and with library modules (EinSum, ConcatSignal); "
                         "distinct = distinct (program, seed set, realisation)")
    chk.assumptions += ["module kinds are multi-affine integer maps so TLC's integer arithmetic is the exact oracle",
                        "None and the all-zero vector are the same sensitivity"]
    # [S]
    model_check(chk, "Network 2 modules, all kinds/slices", consts(2))
    model_check(chk, "Network 2 modules nested", consts(2, nest=True))
    model_check(chk, "Network 3 modules, Mul/Split, none+fancy", consts(3, kinds=["Mul", "Split"], slices=("none", "fancy")))
    if thorough:
        # larger program spaces, each within a time budget (an exhausted budget leaves that space undecided, see evidence)
        model_check(chk, "Network 3 modules, Lin/Mul/Split, none+fancy", consts(3, kinds=["Lin", "Mul", "Split"], slices=("none", "fancy")), budget_s=1500)
        model_check(chk, "Network 3 modules, Sc/Cat/Dot/Mul, none+head", consts(3, kinds=["Sc", "Cat", "Dot", "Mul"], slices=("none", "head")), budget_s=1500)
        model_check(chk, "Network 3 modules nested Lin/Split/Mul", consts(3, kinds=["Lin", "Split", "Mul"], slices=("none", "head"), nest=True), budget_s=1500)
        model_check(chk, "Network 4 modules Lin/Mul/Split no slices", consts(4, kinds=["Lin", "Mul", "Split"], slices=("none",)), budget_s=1500)
    for variant in ("no_skip", "overwrite"):
        r = model_check(chk, "neg " + variant, consts(2, variant=variant, kinds=["Lin", "Split", "Mul"]), expect_violation=True)
        if r.violated is None:
            raise tlc.TLCError("negative variant %s of Network.tla was not refuted" % variant)
    # [R]
    plan = []
    # all two-module programs (one TLC process per kind of the first module)
    for k in ALL_KINDS:
        plan.append((consts(2, first=[k], slices=("none", "head", "fancy") if thorough else ("none", "fancy")),))
    # one-module programs
    plan.append((consts(1),))
    nsim = 3000 if thorough else 600
    for j in range(6 if thorough else 3):
        plan.append((consts(3, nest=True), nsim, chk.seed * 31 + j))
        plan.append((consts(4, nest=True), nsim // 2, chk.seed * 37 + j))
    if thorough:
        for j in range(4):
            plan.append((consts(5, nest=True), nsim // 2, chk.seed * 41 + j, 80))
    cap = 20000 if thorough else 3000         # seeded sample of each exhaustive family
    width = 7
    import random
    for k0 in range(0, len(plan), width):
        with cf.ThreadPoolExecutor(max_workers=width) as ex:
            futs = [ex.submit(emit, *args) for args in plan[k0:k0 + width]]
            for j in cf.as_completed(futs):
                r = j.result()
                chk.transitions += r.generated
                chk.tlc_runs.append({"module": "Network", "label": "emit", "generated": r.generated, "distinct": r.distinct,
                                     "wall_s": round(r.wall, 2)})
                cases = [v[0] for tag, v in r.printed if tag == "PROG"]
                r.printed = []
                if len(cases) > cap:
                    cases = random.Random(chk.seed + len(cases)).sample(cases, cap)
                check_cases(chk, cases)
                del cases, r
            del futs
    library_network_traces(chk, thorough)
    module_init_contract(chk)
