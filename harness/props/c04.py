"""C04 - Backpropagation is linear in the seed, accumulative and leaves states untouched.

[S] ModuleProto.tla: TLC checks Linear (acc = sum of assigned seeds over the Sens steps), StatesUntouched
    and ResponsePure for pure and idempotently-masking modules over all histories to a depth bound; the
    impure variants (accumulate_into_seed, scale_state, overwrite) are refuted.
[R] every history over {Response, SetSeed(a,b), Sens, Reset} emitted by TLC is replayed on a fresh
    instance of every library-module configuration in modtable.py. g1, g2 (the adjoint of the two basis
    seeds) are measured once on another fresh instance; after every step the accumulated input
    sensitivities must equal alpha*g1 + beta*g2 with TLC's (alpha, beta), and the states must be
    bit-identical wherever the specification says they are untouched.
"""
import hashlib

import numpy as np
import scipy.sparse as sps

import modtable
from vf import par, tlc

COEFS = [(1, 0), (0, 1), (2, -1), (0, 0)]


def consts(depth, record, purity="pure"):
    return dict(Coefs={c for c in COEFS}, Depth=depth, Record=record, Purity=purity)


def mc(c, **kw):
    return tlc.mc("ModuleProto", c, **kw)


# ------------------------------------------------------------------------------------------------
def dense(x):
    import pymoto as pym
    if x is None:
        return None
    if isinstance(x, pym.DyadCarrier):
        if x.n_dyads == 0:
            return None  # an empty carrier is the zero contribution (its shape may be unset)
        return np.asarray(x.todense())
    if sps.issparse(x):
        return x.toarray()
    return np.asarray(x)


def fingerprint(x):
    """bit-exact fingerprint of a state"""
    if x is None:
        return "None"
    if sps.issparse(x):
        y = x.tocsc(copy=True)
        y.sort_indices()
        return hashlib.sha1(y.data.tobytes() + y.indices.tobytes() + y.indptr.tobytes()).hexdigest()
    a = np.asarray(x)
    return str(a.dtype) + str(a.shape) + hashlib.sha1(np.ascontiguousarray(a).tobytes()).hexdigest()


def make_basis(outs, rng, kind):
    """two basis seeds: w1 seeds only the first output, w2 seeds every output"""
    import pymoto as pym

    def rand_like(st):
        if sps.issparse(st):
            shape, cplx = st.shape, np.iscomplexobj(st.data)
        else:
            a = np.asarray(st)
            shape, cplx = a.shape, np.iscomplexobj(a)
        cplx = cplx and kind != "real"      # "real": real-typed seeds on complex outputs (e.g. the seed of sum(Re y))
        if kind == "dyad" and len(shape) == 2:
            def vec(n):
                v = rng.random(n) - 0.5
                return v + 1j * (rng.random(n) - 0.5) if cplx else v
            return pym.DyadCarrier([vec(shape[0]), vec(shape[0])], [vec(shape[1]), vec(shape[1])])
        v = rng.random(shape) - 0.5
        if cplx:
            v = v + 1j * (rng.random(shape) - 0.5)
        if shape == ():
            v = complex(v) if cplx else float(v)
        return v
    w1 = [rand_like(outs[0].state)] + [None] * (len(outs) - 1)
    w2 = [rand_like(o.state) for o in outs]
    return w1, w2


def combine(c, w1, w2):
    """the seed a*w1 + b*w2 per output (None where nothing contributes); <<0,0>> gives explicit zeros"""
    a, b = c
    out = []
    for j, (x, y) in enumerate(zip(w1, w2)):
        if a == 0 and b == 0:
            out.append(0 * y)
            continue
        v = None
        if x is not None and a != 0:
            v = a * x
        if b != 0:
            v = b * y if v is None else v + b * y
        out.append(v)
    return out


def as_slices(m, ins):
    """replace every array-valued input signal of the module by a SignalSlice view into a larger signal with the same values"""
    import pymoto as pym
    out = []
    for i, sg in enumerate(ins):
        st = sg.state
        if isinstance(st, np.ndarray) and st.ndim >= 1 and st.shape[0] >= 1:
            pad = np.full((1,) + st.shape[1:], 3.25, dtype=st.dtype)
            big = pym.Signal("P%d" % i, np.concatenate([pad, st, pad, pad], axis=0))
            view = big[1:1 + st.shape[0]]
            for j, x in enumerate(m.sig_in):
                if x is sg:
                    m.sig_in[j] = view
            out.append(view)
        else:
            out.append(sg)
    return out


def measure(entry, w, nresp=1):
    m, ins, outs = entry.make()
    for _ in range(nresp):
        m.response()
    for o, v in zip(outs, w):
        o.sensitivity = None if v is None else (v.copy() if hasattr(v, "copy") else v)
    m.sensitivity()
    return [dense(s.sensitivity) for s in ins]


def lin(alpha, g1, beta, g2, like):
    tot = None
    for c, g in ((alpha, g1), (beta, g2)):
        if g is None:
            continue
        tot = c * g if tot is None else tot + c * g
    return tot


def close(a, b, tol):
    if a is None and b is None:
        return True
    if a is None:
        return np.allclose(b, 0, atol=tol)
    if b is None:
        return np.allclose(a, 0, atol=tol)
    a, b = np.asarray(a), np.asarray(b)
    if a.shape != b.shape:
        return False
    scale = max(1.0, float(np.max(np.abs(a))) if a.size else 1.0, float(np.max(np.abs(b))) if b.size else 1.0)
    return bool(np.all(np.abs(a - b) <= tol * scale))


def replay_history(entry, steps, kind, basis=None):
    """returns None or (step index, signature-kind, message)"""
    import zlib
    rng = np.random.default_rng(zlib.crc32(entry.name.encode()))
    m, ins, outs = entry.make()
    if kind == "slice":
        ins = as_slices(m, ins)
    if kind == "fortran":
        # the same values in column-major memory (what .T, scipy.linalg routines or loadmat hand out)
        for sg in ins:
            if isinstance(sg.state, np.ndarray) and sg.state.ndim == 2:
                sg.state = np.asfortranarray(sg.state)
    w1 = w2 = g1 = g2 = None
    for i, stp in enumerate(steps):
        op = stp["op"]
        st_before = [fingerprint(s.state) for s in ins] + [fingerprint(s.state) for s in outs]
        sens_before = [dense(s.sensitivity) for s in ins]
        sens_before = [None if v is None else v.copy() for v in sens_before]
        try:
            if op == "Response":
                m.response()
                if w1 is None:
                    w1, w2 = make_basis(outs, rng, kind)
                    g1, g2 = measure(entry, w1), measure(entry, w2)
                    if kind == "prealloc":
                        # input signals that own an allocated sensitivity of the right type: contributions are added in place and
                        # reset() zeroes instead of dropping
                        for sg, ga, gb in zip(ins, g1, g2):
                            ref = ga if ga is not None else gb
                            if ref is not None and isinstance(sg.state, (np.ndarray, float, complex)) and sg.sensitivity is None:
                                sg.sensitivity = np.zeros_like(np.asarray(ref) + 0 * np.asarray(gb if gb is not None else ref))
                                sg.keep_alloc = True
            elif op == "SetSeed":
                c = stp["args"]
                seeds = [None] * len(outs) if c == [] else combine(c, w1, w2)
                for o, v in zip(outs, seeds):
                    o.sensitivity = v
            elif op == "Sens":
                m.sensitivity()
            elif op == "Reset":
                m.reset()
        except Exception as e:
            return i, "raise/" + op, "%s raised %s: %s" % (op, type(e).__name__, str(e)[:200])
        st_after = [fingerprint(s.state) for s in ins] + [fingerprint(s.state) for s in outs]
        nin = len(ins)
        if op == "Response":
            if st_after[:nin] != st_before[:nin]:
                return i, "state/Response", "response() changed the state of an input"
            for sb, s in zip(sens_before, ins):
                if not close(sb, dense(s.sensitivity), 0.0):
                    return i, "sens/Response", "response() changed an input sensitivity"
        else:
            if st_after != st_before:
                which = [k for k in range(len(st_after)) if st_after[k] != st_before[k]]
                return i, "state/" + op, "%s changed the state of signal(s) %s (inputs first, then outputs)" % (op, which)
        acc = stp["acc"]
        for k, s in enumerate(ins):
            got = dense(s.sensitivity)
            if acc == []:
                exp = None
            else:
                exp = lin(acc[0], g1[k], acc[1], g2[k], got)
            if not close(exp, got, entry.tol * max(1, abs(acc[0]) + abs(acc[1]) if acc else 1)):
                err = None if (exp is None or got is None or np.shape(exp) != np.shape(got)) else float(np.max(np.abs(np.asarray(exp) - np.asarray(got))))
                return i, "acc/" + op, ("after %s the sensitivity of input %d is not %s*g1 + %s*g2 (max abs error %s)"
                                        % (op, k, acc[0] if acc else None, acc[1] if acc else None, err))
    return None


def _replay_entry(arg):
    idx, kind, behs, seed = arg
    entry = modtable.entries(seed)[idx]
    out = []
    for b in behs:
        try:
            res = replay_history(entry, b, kind)
        except Exception as e:  # harness-level problem while measuring the basis: report as failure of step 0
            res = (0, "raise/measure", "%s: %s" % (type(e).__name__, str(e)[:200]))
        out.append(res)
    return idx, kind, out


def complex_out(entry):
    import warnings
    with warnings.catch_warnings():
        warnings.simplefilter("ignore")
        m, ins, outs = entry.make()
        m.response()
    return any(np.iscomplexobj(o.state.data if sps.issparse(o.state) else o.state) for o in outs)


def signature(entry_name, kind):
    base = entry_name.split("/")[0]
    return "C04/%s/%s" % (base, kind)


def run(chk, replay=None):
    thorough = chk.tier == "thorough"
    ents = modtable.entries(chk.seed)
    if replay is not None:
        idx = [e.name for e in ents].index(replay["module"])
        res = replay_history(ents[idx], replay["steps"], replay["seedkind"])
        chk.case(replay)
        if res is not None:
            chk.violation(signature(replay["module"], res[1]), res[2], replay)
        return
    chk.extra["rule"] = ("a case is (module configuration from modtable.py, seed representation dense/dyadic/real-typed on complex outputs or input-signal realisation prealloc/slice/column-major, history emitted by "
                         "TLC from ModuleProto.tla); non-trivial = the history contains at least one Sens after a SetSeed")
    chk.assumptions += ["the module is deterministic for fixed inputs (reference contributions g1, g2 are measured on a second instance)",
                        "comparison tolerance per module: 1e-9 (direct), 1e-6..1e-8 where an iterative/LAPACK solve is involved"]
    depth_s = 9 if thorough else 7
    for purity in ("pure", "mask_idempotent"):
        name, mod, cfg = mc(consts(depth_s, False, purity), invariants=["Linear"], properties=["StatesUntouched", "ResponsePure"],
                            constraint="DepthBound")
        chk.tlc_must_hold(name, cfg, label="ModuleProto %s depth %d" % (purity, depth_s), extra_modules={name: mod})
    for purity in ("accumulate_into_seed", "scale_state", "overwrite"):
        name, mod, cfg = mc(consts(6, False, purity), invariants=["Linear"], properties=["StatesUntouched", "ResponsePure"],
                            constraint="DepthBound")
        r = tlc.run(name, cfg, extra_modules={name: mod}, expect_violation=True)
        if r.violated is None:
            raise tlc.TLCError("negative variant %s of ModuleProto.tla was not refuted" % purity)
    depth = 5 if thorough else 4
    name, mod, cfg = mc(consts(depth, True), invariants=["Emit"])
    r = chk.tlc(name, cfg, label="emit histories depth %d" % depth, extra_modules={name: mod}, workers=1)
    behs = [v[0]["steps"] for tag, v in r.printed if tag == "BEH"]
    # loop-shaped histories (one response, then seed / sensitivity / reset cycles with changing seeds) to a larger depth
    ds = 7 if thorough else 6
    name, mod, cfg = mc(consts(ds, True), spec="SpecS", invariants=["Emit"])
    r = chk.tlc(name, cfg, label="emit loop-shaped histories depth %d" % ds, extra_modules={name: mod}, workers=1)
    behs += [v[0]["steps"] for tag, v in r.printed if tag == "BEH"]
    # long simulated histories as well
    name, mod, cfg = mc(consts(10, True), invariants=["Emit"])
    r = chk.tlc(name, cfg, label="simulate histories depth 10", extra_modules={name: mod}, workers=1,
                simulate=600 if thorough else 60, depth=14, seed=chk.seed + 5)
    behs += [v[0]["steps"] for tag, v in r.printed if tag == "BEH"]

    def interesting(b):
        seeded = False
        for s in b:
            if s["op"] == "SetSeed" and s["args"] != []:
                seeded = True
            if s["op"] == "Sens" and seeded:
                return True
        return False
    jobs = []
    loops = [b for b in behs if interesting(b) and sum(1 for s in b if s["op"] == "Sens") >= 2]
    import random
    for idx, e in enumerate(ents):
        kinds = ["dense"] + (["dyad"] if "matrix_out" in e.tags else []) + (["real"] if complex_out(e) else [])
        for kind in kinds:
            for part in par.chunks(behs, 4):
                jobs.append((idx, kind, part, chk.seed))
        # other realisations of the input signals (allocated sensitivities, SignalSlice views): a sample of the histories with
        # at least two sensitivity calls
        has2d = any(isinstance(sg.state, np.ndarray) and sg.state.ndim == 2 for sg in e.make()[1])
        for kind in ("prealloc", "slice") + (("fortran",) if has2d else ()):
            pick = random.Random(chk.seed * 7919 + idx).sample(loops, min(len(loops), 400 if thorough else 60))
            for part in par.chunks(pick, 6):
                jobs.append((idx, kind, part, chk.seed))
    results = par.pmap(_replay_entry, jobs)
    pos = {}
    for (idx, kind, part, _), (_, _, out) in zip(jobs, results):
        for b, res in zip(part, out):
            case = {"module": ents[idx].name, "seedkind": kind, "ops": [[s["op"], s["args"]] for s in b]}
            chk.case(case, nontrivial=interesting(b))
            if res is not None:
                i, kind_sig, what = res
                chk.violation(signature(ents[idx].name, kind_sig), "%s [%s seeds]: %s" % (ents[idx].name, kind, what),
                              dict(case, steps=b[:i + 1], failing_step=i))
    chk.extra["modules"] = [e.name for e in ents]
