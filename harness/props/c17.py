"""C17 - The optimality-criteria update keeps bounds, move limit and volume.

[S] Optim.tla (OCStep): whatever the candidate value, the clipped update lies in
    [max(xmin, x - move), min(xmax, x + move)], this interval is non-empty and inside [xmin, xmax], and the
    step is at most the move limit; the design vector splits back to the variable signals (SplitRoundTrip).
[T] runs of minimize_oc on generated separable problems (several variable signals incl. scalars, scalar and
    per-variable bounds, move limits, volume targets) are recorded at every network response and validated
    by TraceOptim.tla (bounds and move limit with fixed-point slack, write-back exactly).
[O] the volume equals the target within the bracket implied by the bisection tolerance (own high-precision
    bisection) whenever the target is reachable within the move limits; the final design is near the analytic
    optimum of sum c_i / x_i.
"""
import json
import warnings

import numpy as np

import optprob
from optprob import fp
from props import c10
from vf import tlc


def oc_candidate(x, dfdx, lam, xmin, xmax, move):
    return np.clip(x * np.sqrt(-dfdx / lam), np.maximum(xmin, x - move), np.minimum(xmax, x + move))


def volume_bracket(x, c, xmin, xmax, move, maxvol, l1l2tol=1e-4, l1=0.0, l2=100000.0):
    """own bisection to ~1e-15, then the volumes at lambda* -/+ the optimiser's bracket width"""
    dfdx = -c / x ** 2
    lo, hi = max(l1, 1e-300), l2
    for _ in range(200):
        mid = 0.5 * (lo + hi)
        if oc_candidate(x, dfdx, mid, xmin, xmax, move).sum() - maxvol > 0:
            lo = mid
        else:
            hi = mid
    lam = 0.5 * (lo + hi)
    v_hi = oc_candidate(x, dfdx, max(lam - l1l2tol, 1e-300), xmin, xmax, move).sum()
    v_lo = oc_candidate(x, dfdx, lam + l1l2tol, xmin, xmax, move).sum()
    return v_lo, v_hi


def record_run(rng, tid):
    import pymoto as pym
    prob = optprob.make_problem(rng, start=optprob.START_CYCLE[tid % len(optprob.START_CYCLE)])
    lens, n, c = prob["lens"], prob["n"], prob["c"]
    net = pym.Network(prob["net"].mods[:1])        # objective only: sum c/x, negative gradient
    obj = prob["responses"][0]
    if rng.random() < 0.5:
        xmin_arg, xmin_spec, xmin_v = float(0.05), dict(kind="scalar", v=fp(0.05)[0]), np.full(n, 0.05)
    else:
        xmin_v = rng.uniform(0.02, 0.2, n)
        xmin_arg, xmin_spec = xmin_v.copy(), dict(kind="pervariable", v=fp(xmin_v))
    if rng.random() < 0.5:
        xmax_arg, xmax_spec, xmax_v = float(1.0), dict(kind="scalar", v=fp(1.0)[0]), np.full(n, 1.0)
    else:
        xmax_v = rng.uniform(1.0 if prob["start"] == "int" else 0.8, 1.5, n)
        xmax_arg, xmax_spec = xmax_v.copy(), dict(kind="pervariable", v=fp(xmax_v))
    move = float(rng.choice([0.05, 0.1, 0.2]))
    x0 = prob["x0"]
    maxvol = None if rng.random() < 0.3 else float(x0.sum() * rng.choice([0.7, 1.0, 1.3]))
    target = x0.sum() if maxvol is None else maxvol
    l1l2tol = float(rng.choice([1e-4, 1e-4, 1e-3, 1e-6]))     # documented internal parameter: part of the quantified configurations
    events, designs = [], []
    orig = net.response

    def rec():
        r = orig()
        xs = [np.atleast_1d(np.asarray(s.state, dtype=float)).copy() for s in prob["sigs"]]
        x = np.concatenate(xs)
        okvol = True
        info = {}
        if designs:
            xp = designs[-1]
            lo_sum = np.maximum(xmin_v, xp - move).sum()
            hi_sum = np.minimum(xmax_v, xp + move).sum()
            if lo_sum <= target <= hi_sum:
                v_lo, v_hi = volume_bracket(xp, c, xmin_v, xmax_v, move, target, l1l2tol=l1l2tol)
                okvol = bool(v_lo - 1e-9 <= x.sum() <= v_hi + 1e-9)
                info = dict(volume=float(x.sum()), bracket=[float(v_lo), float(v_hi)], target=float(target))
        designs.append(x)
        events.append(dict(x=fp(x), sigstates=[fp(v) for v in xs], okvolume=okvol, info=info))
        return r
    net.response = rec
    err = None
    try:
        with warnings.catch_warnings():
            warnings.simplefilter("ignore")
            pym.minimize_oc(net, prob["sigs"], obj, xmin=xmin_arg, xmax=xmax_arg, move=move, maxvol=maxvol, maxit=int(rng.choice([30, 60])),
                            tolx=1e-6, tolf=1e-9, l1l2tol=l1l2tol, verbosity=0)
    except Exception as e:
        err = "%s: %s" % (type(e).__name__, str(e)[:200])
    xfin = designs[-1] if designs else x0
    # analytic optimum of sum c/x with sum x = target
    xopt = optprob.analytic_optimum(c, np.ones(n), target, xmin_v, xmax_v)
    return dict(tid=tid, kind="oc", lens=lens, xmin=xmin_spec, xmax=xmax_spec, move=dict(kind="scalar", v=fp(move)[0]), events=events, error=err,
                final=dict(x=xfin.tolist(), dist_to_optimum=float(np.abs(xfin - xopt).max()), iterations=len(events)), maxit=None)


def run(chk, replay=None):
    thorough = chk.tier == "thorough"
    chk.extra["rule"] = "a trace is one minimize_oc run on a generated separable problem (one event per network response); non-trivial = at least 3 responses"
    chk.assumptions += ["fixed-point unit 1e-5 with a slack of 2 units per inequality",
                        "[O] volume within the bracket of the optimiser's bisection tolerance, computed by an independent bisection",
                        "[O] final design within 2e-3 of the analytic optimum when the run used fewer responses than maxit"]
    Q = lambda n, d=1: (n, d)
    consts = dict(XGrid={Q(0), Q(1, 4), Q(1, 2), Q(1)}, Bounds={(Q(0), Q(1)), (Q(-2), Q(3)), (Q(1, 10), Q(1, 5))},
                  Offsets={Q(1, 2)}, Albefas={Q(1, 10)}, Moves={Q(1, 20), Q(1, 10), Q(1, 2), Q(2)}, AsyBound=Q(10), AsyIncr=Q(6, 5), AsyDecr=Q(7, 10), Variant="faithful")
    name, mod, cfg = tlc.mc("Optim", consts, invariants=["OCStep", "SplitOK"], extra_defs="SplitOK == SplitRoundTrip")
    chk.tlc_must_hold(name, cfg, label="Optim OCStep", extra_modules={name: mod})
    if replay is not None:
        traces = [replay["trace"]]
    else:
        rng = np.random.default_rng(chk.seed + 55)
        traces = [record_run(rng, t + 1) for t in range(400 if thorough else 80)]
    verdict = c10.validate(chk, traces)
    for tr in traces:
        chk.add_trace()
        key = {"tid": tr["tid"], "lens": tr["lens"], "xmin": tr["xmin"], "xmax": tr["xmax"], "move": tr["move"], "responses": len(tr["events"])}
        chk.case(key, nontrivial=len(tr["events"]) >= 3)
        if tr.get("error"):
            chk.violation("C17/raise", "minimize_oc raised %s" % tr["error"], {"trace": tr})
            continue
        matched, need = verdict[tr["tid"]]
        if matched != need:
            e = tr["events"][matched - 1] if 0 <= matched - 1 < len(tr["events"]) else {}
            chk.violation("C17/trace/" + c10.explain(e), "trace %d rejected by TraceOptim at response %d (%s) %s" % (tr["tid"], matched - 1, c10.explain(e), e.get("info", "")), {"trace": tr})
            continue
        if tr["final"]["dist_to_optimum"] > 2e-3 and tr["final"]["iterations"] < 30:
            chk.violation("C17/obs/optimum", "final design is %.3g away from the analytic optimum after %d responses" % (tr["final"]["dist_to_optimum"], tr["final"]["iterations"]), {"trace": tr})
