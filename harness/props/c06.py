"""C06 - The linear-dependency-aware solver is transparent and reuses earlier solutions.

[S] LDAS.tla: TLC checks ModeSound, Forget, ReuseModuloRealSkip, NoNeedlessReuse and DbRank on the
    operational model of LDAWrapper.update/solve for all histories to a depth bound, over five matrix
    classes, user-given flags, and a pool of exact right-hand sides (new, repeated, zero, scaled, summed,
    imaginary multiples, conjugate pairs, blocks with dependent columns). LDASPattern.tla: DiagSound /
    DiagComplete over every 3x3 sparsity pattern that admits a non-singular matrix.
[R] all behaviours to a small depth and simulated long ones are replayed on LDAWrapper around a counting
    dense / sparse LU: concrete matrices realise the class, right-hand sides are the exact pool vectors
    embedded isometrically in R^5. Compared per step: whether the inner solver was called, the sizes of
    both databases, the flags, dtype and shape of the answer, and the [O] residual of the requested
    system of the current matrix.
"""
import concurrent.futures as cf
import zlib

import numpy as np
import scipy.sparse as sps

from vf import par, tlc


def V(*p):
    return [list(x) for x in p]


E1, E2, E3 = (1, 0), (0, 0), (0, 0)
POOL = [
    dict(cols=[V((1, 0), (0, 0), (0, 0))], cplx=False),                       # 1 e1
    dict(cols=[V((0, 0), (1, 0), (0, 0))], cplx=False),                       # 2 e2
    dict(cols=[V((1, 0), (1, 0), (0, 0))], cplx=False),                       # 3 e1+e2
    dict(cols=[V((2, 0), (0, 0), (0, 0))], cplx=False),                       # 4 2 e1
    dict(cols=[V((0, 1), (0, 0), (0, 0))], cplx=True),                        # 5 i e1
    dict(cols=[V((1, 0), (0, 1), (0, 0))], cplx=True),                        # 6 e1 + i e2
    dict(cols=[V((1, 0), (0, -1), (0, 0))], cplx=True),                       # 7 e1 - i e2
    dict(cols=[V((0, 0), (0, 0), (0, 0))], cplx=False),                       # 8 zero
    dict(cols=[V((1, 0), (0, 0), (0, 0)), V((0, 0), (1, 0), (0, 0)), V((1, 0), (1, 0), (0, 0))], cplx=False),  # 9 [e1,e2,e1+e2]
    dict(cols=[V((1, 0), (0, 1), (0, 0)), V((0, 0), (0, 0), (1, 0))], cplx=True),   # 10 [e1+ie2, e3]
    dict(cols=[V((0, 0), (1, 0), (-1, 0))], cplx=False),                      # 11 e2 - e3
    dict(cols=[V((1, 0), (0, 0), (0, 0)), V((1, 0), (0, 0), (0, 0))], cplx=False),  # 12 [e1, e1]
]
CLASSES = ["rs", "rg", "cs", "ch", "cg"]
INVS = ["ForgetInv", "ForgetInvH", "DbRank"]
PROPS = ["ModeSound", "Forget", "ReuseModuloRealSkip", "NoNeedlessReuse"]
NDIM = 5
_v = np.array([1.0, 2.0, 0.0, 1.0, 1.0])
EMBED = (np.eye(NDIM) - 2 * np.outer(_v, _v) / (_v @ _v))[:, [0, 2, 3]]   # isometric embedding of C^3


def consts(depth, record, variant="faithful", x0s=(False,), classes=CLASSES, givens=("none", "sym", "herm"), pool=POOL, trans=("N", "T", "H")):
    return dict(TransSet=set(trans), X0s=set(x0s), Classes=set(classes), Pool=pool, Givens=set(givens), Depth=depth, Record=record, Variant=variant)


def model_check(chk, depth, variant="faithful", expect_violation=False, props=PROPS):
    name, mod, cfg = tlc.mc("LDAS", consts(depth, False, variant), invariants=INVS, properties=props,
                            constraint="DepthBound", view="view")
    if expect_violation:
        return tlc.run(name, cfg, extra_modules={name: mod}, expect_violation=True)
    return chk.tlc_must_hold(name, cfg, label="LDAS exhaustive depth %d" % depth, extra_modules={name: mod})


def emit(depth, simulate=None, seed=0, givens=("none", "sym", "herm"), classes=CLASSES, pool_idx=None, trans=("N", "T", "H"), x0s=(False, True), on_batch=None):
    """pool_idx: 1-based indices into POOL for a focused (deeper) enumeration; the indices in the emitted behaviours are mapped back.
    on_batch(behaviours) is called for every 3000 behaviours while TLC is still running"""
    pool = POOL if pool_idx is None else [POOL[i - 1] for i in pool_idx]
    name, mod, cfg = tlc.mc("LDAS", consts(depth, True, x0s=x0s, givens=givens, classes=classes, pool=pool, trans=trans), invariants=["Emit"])

    def remap(behs):
        if pool_idx is not None:
            for b in behs:
                for stp in b["steps"]:
                    if stp["op"] == "Solve":
                        stp["args"][0] = pool_idx[stp["args"][0] - 1]
        return behs
    sink = par.Batcher("BEH", 3000, lambda b: on_batch(remap(b))) if on_batch else None
    r = tlc.run(name, cfg, extra_modules={name: mod}, workers=1, simulate=simulate,
                depth=depth + 3 if simulate else None, seed=seed, timeout=3000, sink=sink)
    if sink is not None:
        sink.flush()
    else:
        remap([v[0] for tag, v in r.printed if tag == "BEH"])
    return r


# ------------------------------------------------------------------------------------------------
def realise_matrix(cls, version, sparse):
    r = np.random.default_rng(zlib.crc32(("%s-%d" % (cls, version)).encode()))
    n = NDIM
    M = r.random((n, n)) - 0.5
    Mi = r.random((n, n)) - 0.5
    if cls == "rs":
        A = M + M.T + 2 * n * np.eye(n) * (1 if version % 2 else -1)
    elif cls == "rg":
        A = M + n * np.eye(n)
    elif cls == "cs":
        Z = M + 1j * Mi
        A = Z + Z.T + n * np.eye(n) * (1 + 0.5j)
    elif cls == "ch":
        Z = M + 1j * Mi
        A = Z + Z.conj().T + 2 * n * np.eye(n)
    elif cls == "cg":
        A = M + 1j * Mi + n * np.eye(n)
    else:
        raise KeyError(cls)
    return sps.csc_matrix(A) if sparse else A


def realise_rhs(blk):
    cols = []
    for c in blk["cols"]:
        z = np.array([complex(a, b) for a, b in c])
        cols.append(EMBED @ z)
    B = np.stack(cols, axis=1)
    if not blk["cplx"]:
        B = B.real.copy()
    return B[:, 0].copy() if len(cols) == 1 else B


def make_wrapper(given, sparse):
    import pymoto as pym
    base = pym.solvers.SolverSparseLU if sparse else pym.solvers.SolverDenseLU

    class Counting(base):
        ncalls = 0

        def solve(self, rhs, x0=None, trans='N'):
            self.ncalls += 1
            return super().solve(rhs, x0=x0, trans=trans)
    inner = Counting()
    kw = {}
    if given == "sym":
        kw["symmetric"] = True
    elif given == "herm":
        kw["hermitian"] = True
    return pym.solvers.LDAWrapper(inner, **kw), inner


def op_matrix(A, trans):
    Ad = A.toarray() if sps.issparse(A) else A
    return {"N": Ad, "T": Ad.T, "H": Ad.conj().T}[trans]


def replay(beh, sparse):
    """returns None or (step, kind, message, known)"""
    import warnings
    w, inner = make_wrapper(beh["given"], sparse)
    A = None
    version = 0
    rng = np.random.default_rng(12345)
    known = []
    for i, stp in enumerate(beh["steps"]):
        op, args, out = stp["op"], stp["args"], stp["out"]
        try:
            with warnings.catch_warnings():
                warnings.simplefilter("ignore")
                if op == "Update":
                    version += 1
                    A = realise_matrix(args[0], version, sparse)
                    w.update(A)
                else:
                    p, trans, use_x0 = args
                    b = realise_rhs(POOL[p - 1])
                    x0 = None
                    if use_x0:
                        x0 = rng.random(b.shape) - 0.5
                        if np.iscomplexobj(b) or np.iscomplexobj(A.data if sparse else A):
                            x0 = x0 + 1j * (rng.random(b.shape) - 0.5)
                    before = inner.ncalls
                    x = w.solve(b, x0=x0, trans=trans)
                    called = inner.ncalls > before
        except Exception as e:
            return i, "raise/" + op, "%s%s raised %s: %s" % (op, args, type(e).__name__, str(e)[:200]), known
        if bool(w.symmetric) != stp["fSym"] or bool(w.hermitian) != stp["fHerm"]:
            return i, "flags", "after %s%s flags symmetric=%s hermitian=%s, specification %s/%s" % (
                op, args, w.symmetric, w.hermitian, stp["fSym"], stp["fHerm"]), known
        if op == "Solve":
            # [O] the answer solves the requested system of the current matrix
            M = op_matrix(A, trans)
            bn = np.linalg.norm(b)
            res = np.linalg.norm(M @ x - b) / (bn if bn > 0 else 1.0)
            if not np.isfinite(res) or res > 1e-5:
                return i, "residual", "solve(%s, trans=%s) on class history: relative residual %.3g of the requested system" % (p, trans, res), known
            if x.shape != b.shape:
                return i, "shape", "answer shape %s for right-hand side %s" % (x.shape, b.shape), known
            if np.iscomplexobj(x) != out["cplx"]:
                return i, "dtype", "answer complex=%s, specification %s" % (np.iscomplexobj(x), out["cplx"]), known
            reuse_gap = any(a and s and n for a, s, n in zip(out["inspan"], out["skipped"], out["need"]))
            if reuse_gap:
                if called:
                    known.append(i)   # declaratively reusable, but the real-dtype skip forces an inner call
            elif called != out["called"]:
                return i, "inner-call", ("solve(%s, trans=%s): inner solver %s but the specification says %s (in span of solved: %s)"
                                         % (p, trans, "called" if called else "not called", "called" if out["called"] else "not called", out["inspan"])), known
        nN, nH = len(w.x_stored), len(w.xadj_stored)
        if (nN, nH) != (stp["nN"], stp["nH"]) and not known:
            return i, "dbsize", "after %s%s database sizes (%d,%d), specification (%d,%d)" % (op, args, nN, nH, stp["nN"], stp["nH"]), known
    return None if not known else (known[0], "KNOWN", "", known)


def admissible(beh, sparse):
    """the sparse LU back-end does not accept a complex right-hand side for a real matrix"""
    if not sparse:
        return True
    cls = None
    for s in beh["steps"]:
        if s["op"] == "Update":
            cls = s["args"][0]
        elif cls in ("rs", "rg") and POOL[s["args"][0] - 1]["cplx"]:
            return False
    return True


def _replay_chunk(behs):
    out = []
    for beh in behs:
        for sparse in (False, True):
            if not admissible(beh, sparse):
                continue
            key = {"given": beh["given"], "sparse": sparse, "ops": [[s["op"], s["args"]] for s in beh["steps"]]}
            out.append((key, replay(beh, sparse), beh))
    return out


def check_behaviours(chk, behs):
    for part in par.pmap(_replay_chunk, par.chunks(behs, 28)):
        for key, res, beh in part:
            chk.case(key, nontrivial=sum(1 for o in key["ops"] if o[0] == "Solve") >= 1)
            if res is None:
                continue
            i, kind, what, known = res
            if kind == "KNOWN":
                chk.violation("C06/reuse/real-rhs-complex-db", "", dict(key, step=i))
                continue
            chk.violation("C06/%s" % kind, what, dict(key, failing_step=i, steps=beh["steps"][:i + 1], given=beh["given"]))


# ---- sparsity patterns ---------------------------------------------------------------------------
def pattern_cases():
    name, mod, cfg = tlc.mc("LDASPattern", dict(N=3, Variant="faithful", Depth=1), invariants=["DiagSound", "DiagComplete", "Emit"])
    return name, mod, cfg


def replay_pattern(case, sparse, cplx=False):
    import warnings
    pat = np.array(case["pat"], dtype=bool)
    r = np.random.default_rng(int(np.packbits(pat.ravel()).sum()) + 17)
    A = (r.random(pat.shape) + 0.5) * pat * np.where(r.random(pat.shape) < 0.5, -1, 1)
    A = A + np.diag(np.diag(A)) * 3
    if cplx:     # generic complex values on the same pattern (neither symmetric nor Hermitian; complex diagonal)
        A = A * np.exp(1j * (0.3 + 1.2 * r.random(pat.shape)))
    if abs(np.linalg.det(A)) < 1e-3:
        A = A + np.diag(np.diag(pat) * 1.0) * 2
    if abs(np.linalg.det(A)) < 1e-6:
        return None  # numerically singular realisation: skip (counted as trivial)
    w, inner = make_wrapper("none", sparse)
    Am = sps.csc_matrix(A) if sparse else A
    with warnings.catch_warnings():
        warnings.simplefilter("ignore")
        w.update(Am)
        got = sorted(int(i) + 1 for i in w.diagonal_idx)
        if got != sorted(case["diag"]):
            return "diagidx", "pattern %s: divided-out dofs %s, specification %s" % (case["pat"], got, sorted(case["diag"]))
        for trans in ("N", "T", "H"):
            b = r.random(3) + 0.5
            if cplx:
                b = b + 1j * (r.random(3) - 0.5)
            x = w.solve(b, trans=trans)
            res = np.linalg.norm(op_matrix(A, trans) @ x - b) / np.linalg.norm(b)
            if not res < 1e-6:
                return "residual", "pattern %s trans=%s: relative residual %.3g" % (case["pat"], trans, res)
            before = inner.ncalls
            x2 = w.solve(2 * b, trans=trans)
            if inner.ncalls != before:
                return "inner-call", "pattern %s trans=%s: repeated (scaled) right-hand side called the inner solver" % (case["pat"], trans)
            if not np.linalg.norm(op_matrix(A, trans) @ x2 - 2 * b) / np.linalg.norm(b) < 1e-5:
                return "residual", "pattern %s trans=%s: reused solution has a large residual" % (case["pat"], trans)
    return "ok"


def pattern_matrix(pat, r, cplx):
    A = (r.random(pat.shape) + 0.5) * pat * np.where(r.random(pat.shape) < 0.5, -1, 1)
    A = A + np.diag(np.diag(A)) * 3
    if cplx:
        A = A * np.exp(1j * (0.3 + 1.2 * r.random(pat.shape)))
    if abs(np.linalg.det(A)) < 1e-3:
        A = A + np.diag(np.diag(pat) * 1.0) * 2
    return A


def replay_pattern_seq(case, storage, cplx):
    """one wrapper object updated with a sequence of matrices whose value patterns differ. storage: "dense", "sparse"
    (only non-zeros stored) or "fullsparse" (every entry stored, zeros explicitly: the stored structure never changes)"""
    import warnings
    steps = case["steps"]
    r = np.random.default_rng(97 + sum(int(np.packbits(np.array(s["pat"], dtype=bool).ravel()).sum()) * (k + 1) for k, s in enumerate(steps)))
    w, inner = make_wrapper("none", storage != "dense")
    n = len(steps[0]["pat"])
    rr, cc = np.divmod(np.arange(n * n), n)
    with warnings.catch_warnings():
        warnings.simplefilter("ignore")
        for k, stp in enumerate(steps):
            pat = np.array(stp["pat"], dtype=bool)
            A = pattern_matrix(pat, r, cplx)
            if abs(np.linalg.det(A)) < 1e-6:
                return None
            Am = A if storage == "dense" else (sps.csc_matrix(A) if storage == "sparse" else sps.csc_matrix((A.ravel(), (rr, cc)), shape=(n, n)))
            w.update(Am)
            got = sorted(int(i) + 1 for i in w.diagonal_idx)
            if got != sorted(stp["diag"]):
                return "diagidx", "update #%d with pattern %s: divided-out dofs %s, specification %s (storage %s)" % (k + 1, stp["pat"], got, sorted(stp["diag"]), storage)
            for trans in ("N", "T", "H"):
                b = r.random(n) + 0.5 + (1j * (r.random(n) - 0.5) if cplx else 0)
                x = w.solve(b, trans=trans)
                res = np.linalg.norm(op_matrix(A, trans) @ x - b) / np.linalg.norm(b)
                if not res < 1e-6:
                    return "residual", "update #%d with pattern %s trans=%s: relative residual %.3g (storage %s)" % (k + 1, stp["pat"], trans, res, storage)
    return "ok"


def run(chk, replay_case=None, replay=None):
    replay_case = replay
    if replay_case is not None and "storage" in replay_case:
        res = replay_pattern_seq(replay_case, replay_case["storage"], replay_case.get("complex", False))
        chk.case(replay_case)
        if res not in ("ok", None):
            chk.violation("C06/pattern-seq/" + res[0], res[1], replay_case)
        return
    if replay_case is not None:
        if "pat" in replay_case:
            res = replay_pattern(replay_case, replay_case.get("sparse", False), replay_case.get("complex", False))
            chk.case(replay_case)
            if res not in ("ok", None):
                chk.violation("C06/pattern/" + res[0], res[1], replay_case)
            return
        beh = {"given": replay_case["given"], "steps": replay_case["steps"]}
        res = replay(beh, replay_case["sparse"])
        chk.case(replay_case)
        if res is not None and res[1] != "KNOWN":
            chk.violation("C06/%s" % res[1], res[2], replay_case)
        return
    thorough = chk.tier == "thorough"
    chk.extra["rule"] = ("a case is (user-given flags, dense/sparse inner LU, history of update(class)/solve(block, trans, x0?)) emitted "
                         "by TLC from LDAS.tla with the expected inner-call decision, database sizes and flags per step; plus one case "
                         "per 3x3 sparsity pattern from LDASPattern.tla; non-trivial = contains at least one solve")
    chk.assumptions += ["matrix classes are realised by seeded generic matrices with a dominant diagonal (condition number < 100)",
                        "right-hand sides are exact Gaussian-integer vectors embedded isometrically in R^5, so exact span membership "
                        "coincides with numerical dependence far from the wrapper tolerance",
                        "a user-given symmetric/hermitian flag is truthful",
                        "[O] residual of the requested system <= 1e-5 (100 x wrapper tolerance)"]
    model_check(chk, 5 if thorough else 4)
    for variant, prop in (("stale_flags", "ModeSound"), ("no_clear_adjoint", "ForgetInvH")):
        r = model_check(chk, 4, variant=variant, expect_violation=True)
        if r.violated is None:
            raise tlc.TLCError("negative variant %s of LDAS.tla was not refuted" % variant)
    r = model_check(chk, 4, expect_violation=True, props=["ReuseStrict"])
    chk.extra["reuse_strict_refuted_by_real_skip"] = r.violated == "ReuseStrict"
    # patterns
    name, mod, cfg = pattern_cases()
    r = chk.tlc_must_hold(name, cfg, label="LDASPattern 3x3", extra_modules={name: mod}, workers=1)
    pats = [v[0] for tag, v in r.printed if tag == "CASE"]
    for case in pats:
        for sparse in (False, True):
            for cplx in (False, True):
                try:
                    res = replay_pattern(case, sparse, cplx)
                except Exception as e:
                    res = ("raise", "pattern %s raised %s: %s" % (case["pat"], type(e).__name__, str(e)[:150]))
                chk.case(dict(case, sparse=sparse, complex=cplx), nontrivial=res is not None)
                if res not in ("ok", None):
                    chk.violation("C06/pattern/" + res[0], res[1], dict(case, sparse=sparse, complex=cplx))
    name, mod, cfg = tlc.mc("LDASPattern", dict(N=3, Variant="column_only", Depth=1), invariants=["DiagSound"])
    r = tlc.run(name, cfg, extra_modules={name: mod}, expect_violation=True)
    if r.violated is None:
        raise tlc.TLCError("negative variant column_only of LDASPattern.tla was not refuted")
    # one wrapper updated with a sequence of patterns (incl. matrices stored with a fixed structure and explicit zeros)
    name, mod, cfg = tlc.mc("LDASPattern", dict(N=3, Variant="faithful", Depth=2), invariants=["DiagSound", "DiagComplete"])
    chk.tlc_must_hold(name, cfg, label="LDASPattern 3x3 pairs", extra_modules={name: mod})
    name, mod, cfg = tlc.mc("LDASPattern", dict(N=3, Variant="stale_partition", Depth=2), invariants=["DiagSound", "DiagComplete"])
    r = tlc.run(name, cfg, extra_modules={name: mod}, expect_violation=True)
    if r.violated is None:
        raise tlc.TLCError("negative variant stale_partition of LDASPattern.tla was not refuted")
    name, mod, cfg = tlc.mc("LDASPattern", dict(N=3, Variant="faithful", Depth=3), invariants=["EmitSeq"])
    r = chk.tlc(name, cfg, label="LDASPattern sequences", extra_modules={name: mod}, workers=1, simulate=2000 if thorough else 150, depth=6, seed=chk.seed + 23)
    seqs = [v[0] for tag, v in r.printed if tag == "SEQ"]
    for k, case in enumerate(seqs):
        for storage in ("dense", "sparse", "fullsparse"):
            cplx = bool((k + len(storage)) % 2)
            try:
                res = replay_pattern_seq(case, storage, cplx)
            except Exception as e:
                res = ("raise", "update / solve sequence raised %s: %s (storage %s)" % (type(e).__name__, str(e)[:150], storage))
            key = dict(case, storage=storage, complex=cplx)
            chk.case(key, nontrivial=res is not None)
            if res not in ("ok", None):
                chk.violation("C06/pattern-seq/" + res[0], res[1], key)
    # behaviours
    # emission runs are taken a few at a time and their results dropped as soon as they are replayed (memory stays bounded)
    plan = []
    for g in ("none", "sym", "herm"):
        plan.append((2, None, 0, (g,)))
    if thorough:
        for c in CLASSES:
            plan.append((3, None, 0, ("none",), (c,)))
    # focused deeper enumerations: non-symmetric classes, adjoint modes, zero / repeated / new right-hand sides, matrix updates
    fdepth = 6 if thorough else 5
    plan.append((fdepth, None, 0, ("none",), ("rg",), [1, 2, 8], ("N", "T"), (False,)))
    plan.append((fdepth, None, 0, ("none",), ("cg",), [1, 6, 8], ("T", "H"), (False,)))
    plan.append((fdepth, None, 0, ("none",), ("rs", "rg"), [1, 3, 8], ("T",), (False,)))
    nsim = 1500 if thorough else 100
    for j in range(12 if thorough else 8):
        plan.append((8, nsim, chk.seed * 53 + j))
    for j in range(12 if thorough else 6):
        plan.append((14, nsim // 2, chk.seed * 59 + j))
    width = 6
    for k in range(0, len(plan), width):
        with cf.ThreadPoolExecutor(max_workers=width) as ex:
            futs = [ex.submit(emit, *args, on_batch=lambda b: check_behaviours(chk, b)) for args in plan[k:k + width]]
            for j in cf.as_completed(futs):
                r = j.result()
                chk.transitions += r.generated
                chk.tlc_runs.append({"module": "LDAS", "label": "emit", "generated": r.generated, "distinct": r.distinct,
                                     "wall_s": round(r.wall, 2)})
            del futs
