"""C10 - MMA iterates respect bounds and move limits and converge on convex problems.

[S] Optim.tla (Enclosure): for every position of x, xold1, xold2 on a rational grid of [xmin, xmax], every
    reachable asymptote offset, albefa and move, after the operational offset update: offsets stay in
    [1/asybound^2, asybound], low < alfa <= x <= beta < upp, xmin <= alfa, beta <= xmax, and the admissible
    interval respects the move limit; bounds per signal / per variable expand to the per-variable vector and
    the design vector splits back to the signals (SplitRoundTrip). A variant without the xmin clause is refuted.
[R] every set-up case of Optim.tla (state before the call) is loaded into a real MMA object and MMA.mmasub is called
    (both MMA versions): updated offsets, asymptotes and admissible interval must equal the specification's, and the
    approximation handed to the sub-problem solver must reproduce value and gradient at x.
[T] runs of MMA on generated convex problems (several signals incl. scalars; scalar / per-signal /
    per-variable bounds and move limits; both MMA versions; several asymptote parameters; 1-2 constraints)
    are recorded at every sub-problem (patched subsolv, wrapped mmasub, fn_callback) in fixed point and
    validated by TraceOptim.tla: enclosure inequalities with sound slack, history bookkeeping, iteration
    counter, bound expansion and write-back exactly.
[O] per iteration: the convex approximation reproduces g and dg at x; the returned point satisfies the
    sub-problem's KKT conditions (independent residual); at the end the iterate is near the analytic optimum
    and the constraints are satisfied.
"""
import json
import warnings

import numpy as np

import optprob
from optprob import fp
from vf import tlc


def kkt_residual(x, y, z, lam, xsi, eta, mu, zet, s, low, upp, alfa, beta, P, Q, a0, a, b, c, d):
    """independent evaluation of the first-order conditions of the MMA sub-problem (Svanberg 2007, eq. 5.9)"""
    ux, xl = upp - x, x - low
    p0, q0 = P[0], Q[0]
    Pc, Qc = P[1:], Q[1:]
    plam = p0 + lam @ Pc
    qlam = q0 + lam @ Qc
    rex = plam / ux ** 2 - qlam / xl ** 2 - xsi + eta
    rey = c + d * y - lam - mu
    rez = a0 - zet - a @ lam
    gvec = Pc @ (1 / ux) + Qc @ (1 / xl)
    relam = gvec - a * z - y + s - b
    comp = np.concatenate([xsi * (x - alfa), eta * (beta - x), mu * y, [zet * z], lam * s])
    stat = max(np.abs(rex).max(), np.abs(rey).max() if rey.size else 0, abs(rez), np.abs(relam).max() if relam.size else 0)
    neg = min(xsi.min(), eta.min(), mu.min() if mu.size else 0, zet, lam.min() if lam.size else 0, s.min() if s.size else 0)
    return stat, comp.max() if comp.size else 0.0, neg


def record_run(rng, tid):
    import pymoto as pym
    import pymoto.common.mma as mma_mod
    prob = optprob.make_problem(rng, with_quadratic=bool(rng.random() < 0.4), start=optprob.START_CYCLE[tid % len(optprob.START_CYCLE)])
    lens, n = prob["lens"], prob["n"]
    xmin_arg, xmin_spec, xmin_v = optprob.bound_spec(rng, lens, 0.02, 0.2)
    xmax_arg, xmax_spec, xmax_v = optprob.bound_spec(rng, lens, 1.1 if prob["start"] == "int" else 0.9, 2.0)
    mv_kind = str(rng.choice(["scalar", "persignal"]))
    if mv_kind == "scalar":
        mv = float(rng.choice([0.05, 0.1, 0.2, 0.5]))
        move_arg, move_spec = mv, dict(kind="scalar", v=int(round(mv * 100)))
    else:
        mvs = [float(rng.choice([0.05, 0.1, 0.2, 0.5])) for _ in lens]
        move_arg, move_spec = list(mvs), dict(kind="persignal", v=[int(round(m * 100)) for m in mvs])
        if len(lens) == n:      # as many signals as variables: the list is (also) read per variable - same values
            pass
    kw = dict(mmaversion=str(rng.choice(["Svanberg1987", "Svanberg2007"])), asyinit=float(rng.choice([0.2, 0.5])),
              asyincr=float(rng.choice([1.1, 1.2])), asydecr=float(rng.choice([0.7, 0.65])), albefa=float(rng.choice([0.1, 0.3])))
    events = []
    cb_states = []
    mma = pym.MMA(prob["net"], prob["sigs"], prob["responses"], xmin=xmin_arg, xmax=xmax_arg, move=move_arg,
                  maxit=int(rng.choice([25, 40])), tolx=1e-5, verbosity=0,
                  fn_callback=lambda: cb_states.append([np.atleast_1d(np.asarray(s.state, dtype=float)).copy() for s in prob["sigs"]]), **kw)
    orig_subsolv = mma_mod.subsolv
    orig_mmasub = mma.mmasub
    cur = {}

    def subsolv_rec(epsimin, low, upp, alfa, beta, P, Q, a0, a, b, c, d, x0=None):
        res = orig_subsolv(epsimin, low, upp, alfa, beta, P, Q, a0, a, b, c, d, x0=x0)
        cur.update(low=low.copy(), upp=upp.copy(), alfa=alfa.copy(), beta=beta.copy(), P=P.copy(), Q=Q.copy(), a0=a0, a=a, b=b.copy(),
                   c=c, d=d, eps=epsimin, res=res)
        return res

    def mmasub_rec(xval, g, dg):
        xo1 = None if mma.xold1 is None else mma.xold1.copy()
        xo2 = None if mma.xold2 is None else mma.xold2.copy()
        it = mma.iter
        xnew, change = orig_mmasub(xval, g, dg)
        low, upp, alfa, beta = cur["low"], cur["upp"], cur["alfa"], cur["beta"]
        ux, xl = upp - xval, xval - low
        approx = cur["P"] @ (1 / ux) + cur["Q"] @ (1 / xl)
        rhs = np.concatenate([[approx[0] - g[0]], cur["b"]])
        val_ok = np.allclose(approx - rhs, g, rtol=1e-8, atol=1e-10)
        grad = cur["P"] / ux ** 2 - cur["Q"] / xl ** 2
        grad_ok = np.allclose(grad, dg, rtol=1e-8, atol=1e-9)
        stat, comp, neg = kkt_residual(*cur["res"], low, upp, alfa, beta, cur["P"], cur["Q"], cur["a0"], cur["a"], cur["b"], cur["c"], cur["d"])
        okkkt = bool(stat < 1e-5 and comp < 1e-5 and neg > -1e-12 and np.allclose(cur["res"][0], xnew))
        events.append(dict(iter=int(it), x=fp(xval), xmin=fp(mma.xmin), xmax=fp(mma.xmax), low=fp(low), upp=fp(upp), alfa=fp(alfa), beta=fp(beta),
                           xnew=fp(xnew), xold1=[] if xo1 is None else fp(xo1), xold2=[] if xo2 is None else fp(xo2),
                           strict=[bool(low[j] < alfa[j] and beta[j] < upp[j] and alfa[j] <= xval[j] <= beta[j]) for j in range(len(xval))],
                           okapprox=bool(val_ok and grad_ok), okkkt=okkkt,
                           sigstates=[fp(v) for v in cb_states[-1]], info=dict(stat=float(stat), comp=float(comp))))
        return xnew, change
    mma_mod.subsolv = subsolv_rec
    mma.mmasub = mmasub_rec
    err = None
    try:
        with warnings.catch_warnings():
            warnings.simplefilter("ignore")
            mma.response()
    except Exception as e:
        err = "%s: %s" % (type(e).__name__, str(e)[:200])
    finally:
        mma_mod.subsolv = orig_subsolv
    xfin = np.concatenate([np.atleast_1d(np.asarray(s.state, dtype=float)) for s in prob["sigs"]])
    final = dict(x=xfin.tolist(), g=[float(r.state) for r in prob["responses"]])
    if len(prob["responses"]) == 2:
        xopt = optprob.analytic_optimum(prob["c"], prob["a"], prob["vol"], xmin_v, xmax_v)
        final["dist_to_optimum"] = float(np.abs(xfin - xopt).max())
    return dict(tid=tid, kind="mma", lens=lens, xmin=xmin_spec, xmax=xmax_spec, move=move_spec, events=events, error=err, final=final,
                options=kw, maxit=mma.maxIt)


def validate(chk, traces):
    cfg = "SPECIFICATION TraceSpec\nINVARIANT Progress\nPOSTCONDITION Report\n"
    slim = [{k: t[k] for k in ("tid", "kind", "lens", "xmin", "xmax", "move", "events")} for t in traces]
    for t in slim:
        t["events"] = [{k: v for k, v in e.items() if k != "info"} for e in t["events"]]
    r = chk.tlc("TraceOptim", cfg, label="TraceOptim batch of %d" % len(traces), workers=1,
                extra_files={"traces.json": json.dumps(slim)}, env={"TRACE_FILE": "traces.json"}, timeout=3000)
    if r.violated is not None:
        raise tlc.TLCError("TraceOptim: unexpected TLC verdict %s\n%s" % (r.violated, r.stdout[-2000:]))
    verdict = {vals[0]: (vals[1], vals[2]) for tag, vals in r.printed if tag == "TRACE"}
    if len(verdict) != len(traces):
        raise tlc.TLCError("TraceOptim reported %d verdicts for %d traces\n%s" % (len(verdict), len(traces), r.stdout[-2000:]))
    return verdict


def explain(e):
    bad = [k for k in ("okapprox", "okkkt", "okvolume") if k in e and not e[k]]
    if "strict" in e and not all(e["strict"]):
        bad.append("strict-enclosure")
    return ",".join(bad) if bad else "inequality/bookkeeping"


def replay_setup(cases, version):
    """spec -> code for one step: the cases of Optim.tla (state before the call) are loaded into a real MMA object, one design
    variable per case, and MMA.mmasub is called once; offsets, asymptotes and the admissible interval handed to the sub-problem
    solver must be the specification's, and the convex approximation must reproduce value and gradient at x"""
    import pymoto as pym
    import pymoto.common.mma as mma_mod
    qf = lambda v: v[0] / v[1]
    out = []
    groups = {}
    for c in cases:
        groups.setdefault((tuple(c["st"]["albefa"]), c["st"]["first"]), []).append(c)
    for (albefa, first), grp in sorted(groups.items()):
        n = len(grp)
        col = lambda k: np.array([qf(c["st"][k]) for c in grp])
        x = pym.Signal("x", col("x"))
        resp = [pym.Signal("g0", 0.0), pym.Signal("g1", 0.0)]
        mma = pym.MMA(pym.Network(), [x], resp, xmin=col("xmin"), xmax=col("xmax"), move=col("move"), verbosity=0, albefa=qf(albefa), mmaversion=version)
        mma.n = n
        mma.offset = col("off")
        if not first:
            mma.xold1, mma.xold2 = col("xo1"), col("xo2")
        rng = np.random.default_rng(n)
        g = np.array([0.7, -0.2])
        dg = rng.random((2, n)) - 0.5
        got = {}
        orig = mma_mod.subsolv

        def fake(epsimin, low, upp, alfa, beta, P, Q, a0, a, b, c, d, x0=None):
            got.update(low=low.copy(), upp=upp.copy(), alfa=alfa.copy(), beta=beta.copy(), P=P.copy(), Q=Q.copy(), b=b.copy())
            return x0.copy(), np.zeros(1), 0.0, np.zeros(1), np.zeros(n), np.zeros(n), np.zeros(1), 0.0, np.zeros(1)
        mma_mod.subsolv = fake
        try:
            mma.mmasub(col("x").copy(), g, dg)
        except Exception as e:
            out.append(("setup/raise", "mmasub raised %s: %s" % (type(e).__name__, str(e)[:150]), grp[0]))
            continue
        finally:
            mma_mod.subsolv = orig
        xv = col("x")
        ux, xl = got["upp"] - xv, xv - got["low"]
        approx = got["P"] @ (1 / ux) + got["Q"] @ (1 / xl)
        grad = got["P"] / ux ** 2 - got["Q"] / xl ** 2
        okv = abs((approx[1] - got["b"][0]) - g[1]) < 1e-9 * max(1.0, np.abs(approx).max())
        for j, c in enumerate(grp):
            for key, val in (("off2", mma.offset[j]), ("low", got["low"][j]), ("upp", got["upp"][j]), ("alfa", got["alfa"][j]), ("beta", got["beta"][j])):
                e = qf(c[key])
                if abs(val - e) > 1e-12 * max(1.0, abs(e)):
                    out.append(("setup/" + key, "mmasub (%s) with x=%s xold1=%s xold2=%s offset=%s bounds [%s, %s] albefa=%s move=%s first=%s: %s = %.15g, specification %.15g" % (
                        version, *[qf(c["st"][k]) for k in ("x", "xo1", "xo2", "off", "xmin", "xmax", "albefa", "move")], first, key, val, e), c))
                    break
            else:
                if not okv or not np.allclose(grad[:, j], dg[:, j], rtol=1e-3 if "2007" in version else 1e-9, atol=1e-4 if "2007" in version else 1e-12):
                    out.append(("setup/approximation", "the convex approximation does not reproduce value / gradient at x (case %s)" % c["st"], c))
                else:
                    out.append(None)
    return out


def run(chk, replay=None):
    thorough = chk.tier == "thorough"
    if replay is not None and "st" in replay:
        for version in ("Svanberg1987", "Svanberg2007"):
            for res in replay_setup([replay], version):
                chk.case({"setup": replay["st"], "version": version})
                if res:
                    chk.violation("C10/" + res[0], res[1], res[2])
        return
    chk.extra["rule"] = ("a trace is one MMA run on a generated convex problem (one event per sub-problem); non-trivial = at least 3 iterations")
    chk.assumptions += ["fixed-point unit 1e-5 with a slack of 2 units per inequality", "the interior-point algorithm itself is not decided; its "
                        "result is checked by an independent KKT residual ([O])", "[O] convergence: distance to the analytic optimum < 1e-3 after the run, constraints <= 1e-6"]
    Q = lambda n, d=1: (n, d)
    consts = dict(XGrid={Q(0), Q(1, 4), Q(1, 2), Q(1)}, Bounds={(Q(0), Q(1)), (Q(-2), Q(3)), (Q(1, 10), Q(1, 5))},
                  Offsets={Q(1, 2), Q(3, 5), Q(7, 20), Q(1, 100), Q(10), Q(9)} | ({Q(1, 5), Q(6, 25), Q(7, 50)} if thorough else set()),
                  Albefas={Q(1, 10), Q(1, 2), Q(9, 10)}, Moves={Q(1, 10), Q(1, 2), Q(1), Q(2)}, AsyBound=Q(10), AsyIncr=Q(6, 5), AsyDecr=Q(7, 10), Variant="faithful")
    name, mod, cfg = tlc.mc("Optim", consts, invariants=["Enclosure", "SplitOK"], extra_defs="SplitOK == SplitRoundTrip")
    chk.tlc_must_hold(name, cfg, label="Optim Enclosure", extra_modules={name: mod})
    name, mod, cfg = tlc.mc("Optim", dict(consts, Variant="no_xmin"), invariants=["Enclosure"])
    r = tlc.run(name, cfg, extra_modules={name: mod}, expect_violation=True)
    if r.violated is None:
        raise tlc.TLCError("negative variant no_xmin of Optim.tla was not refuted")
    # [R] every case of the set-up on the real MMA.mmasub (both versions)
    if replay is None:
        name, mod, cfg = tlc.mc("Optim", consts, invariants=["EmitSetup"])
        r = chk.tlc(name, cfg, label="Optim emit set-up cases", extra_modules={name: mod}, workers=1)
        cases = [v[0] for tag, v in r.printed if tag == "SETUP"]
        for version in ("Svanberg1987", "Svanberg2007"):
            results = replay_setup(cases, version)
            nviol = 0
            for res in results:
                chk.count()
                if res and nviol < 40:
                    nviol += 1
                    chk.violation("C10/" + res[0], res[1], res[2])
        chk.extra["setup_cases"] = len(cases)
    if replay is not None:
        traces = [replay["trace"]]
    else:
        rng = np.random.default_rng(chk.seed + 77)
        traces = [record_run(rng, t + 1) for t in range(300 if thorough else 30)]
    verdict = validate(chk, traces)
    for tr in traces:
        chk.add_trace()
        key = {"tid": tr["tid"], "lens": tr["lens"], "xmin": tr["xmin"], "xmax": tr["xmax"], "move": tr["move"], "options": tr.get("options"), "iterations": len(tr["events"])}
        chk.case(key, nontrivial=len(tr["events"]) >= 3)
        if tr.get("error"):
            chk.violation("C10/raise", "MMA raised %s" % tr["error"], {"trace": tr})
            continue
        matched, need = verdict[tr["tid"]]
        if matched != need:
            e = tr["events"][matched - 1] if 0 <= matched - 1 < len(tr["events"]) else {}
            chk.violation("C10/trace/" + explain(e), "trace %d rejected by TraceOptim at iteration %d (%s) %s" % (tr["tid"], matched - 1, explain(e), e.get("info", "")), {"trace": tr})
            continue
        fin = tr["final"]
        if len(tr["events"]) < tr["maxit"] or True:
            if max(fin["g"][1:]) > 1e-6:
                chk.violation("C10/obs/constraint", "a constraint ends at %.3g > 0" % max(fin["g"][1:]), {"trace": tr})
            elif "dist_to_optimum" in fin and fin["dist_to_optimum"] > 2e-3:
                chk.violation("C10/obs/optimum", "final design is %.3g away from the analytic optimum" % fin["dist_to_optimum"], {"trace": tr})
