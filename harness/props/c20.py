"""C20 - Result files decode back to the data that was written.

[S] Writers.tla: abstract file system under histories of WriteToVTI / ScalarToFile responses; TLC checks
    FilesOK (one file per iteration or a single overwritten one; one header and one row per call with the
    iteration number first) and ArraysOK (cell arrays carry ncomp*nel values, point arrays ncomp*nnodes).
[R] every behaviour is replayed on the real modules in a scratch directory; after every call all files are
    decoded (XML attributes, base64 blocks as float32, header / rows of the log) and compared with the
    specification's abstract file system.
"""
import base64
import os
import shutil
import struct
import tempfile
import xml.etree.ElementTree as ET

import numpy as np

from vf import tlc

CONFIGS = [
    dict(grid=(4, 3, 0), vecs=[("rho", "cell1"), ("u", "point2"), ("T", "point1")], overwrite=False, scale=1.0,
         log=[("f", ()), ("g", (3,))], fmt=".10e", sep="\t", ext=".txt", size=(1.0, 1.0, 1.0)),
    dict(grid=(5, 2, 0), vecs=[("u", "point2"), ("rho", "cell1"), ("s", "cell3"), ("bad", "neither")], overwrite=True, scale=2.0,
         log=[("f", ()), ("m", (2, 2))], fmt=".4f", sep=";", ext=".csv", size=(0.5, 2.0, 1.0)),
    dict(grid=(3, 3, 0), vecs=[("ub", "pointblock"), ("xb", "cellblock"), ("ut", "pointblockT")], overwrite=False, scale=1.0,
         log=[("a", (2,)), ("b", ())], fmt="e", sep=" ", ext=".log", size=(1.0, 1.0, 1.0)),
    dict(grid=(2, 2, 2), vecs=[("u3", "point3"), ("rho", "cell1"), ("xt", "cellblockT"), ("T", "point1"), ("w", "point3blockT")], overwrite=False, scale=0.5,
         log=[("f", ())], fmt=".6g", sep=",", ext=".txt", size=(1.0, 2.0, 0.5)),
    dict(grid=(3, 1, 1), vecs=[("p2", "point2"), ("c3", "cell3")], overwrite=True, scale=1.0,
         log=[("v", (4,))], fmt=".3e", sep="\t", ext=".tsv", size=(1.0, 1.0, 1.0)),
    # logged 2-D arrays handed over in column-major memory (a transposed view, LAPACK output): same values, same names
    dict(grid=(2, 2, 0), vecs=[("rho", "cell1")], overwrite=True, scale=1.0, log=[("A", (2, 3)), ("f", ()), ("B", (3, 2))], fmt=".6e", sep=";", ext=".txt",
         size=(1.0, 1.0, 1.0), logorder="F"),
    # arrays larger than 64 KiB (more than 16384 single-precision values per array)
    dict(grid=(140, 120, 0), vecs=[("rho", "cell1"), ("T", "point1")], overwrite=True, scale=1.0, log=[("f", ())], fmt=".3e", sep=",", ext=".txt",
         size=(1.0, 1.0, 1.0), depth=2),
    dict(grid=(4, 3, 0), vecs=[("only", "neither")], overwrite=False, scale=1.0, log=[("z", ())], fmt="f", sep="|", ext=".txt", size=(1.0, 1.0, 1.0)),
]


def consts(cfg, depth):
    return dict(Grid=tuple(cfg["grid"]), Vecs=[dict(tag=t, kind=k) for t, k in cfg["vecs"]], Overwrite=cfg["overwrite"], Depth=depth,
                LogShapes=[dict(tag=t, shape=tuple(s)) for t, s in cfg["log"]])


def datum(it, v, idx):
    return 100 * v + 10 * it + (idx % 7) - 3


def shape_of(kind, nel, nn):
    return {"cell1": (nel,), "cell3": (3 * nel,), "point1": (nn,), "point2": (2 * nn,), "point3": (3 * nn,), "cellblock": (2, nel),
            "cellblockT": (nel, 3), "pointblock": (2, 2 * nn), "pointblockT": (2 * nn, 3), "point3blockT": (3 * nn, 2), "neither": (nel * nn + 1,)}[kind]


def decode_vti(path):
    root = ET.parse(path).getroot()
    img = root.find("ImageData")
    piece = img.find("Piece")
    out = {"extent": [int(v) for v in img.get("WholeExtent").split()], "piece_extent": [int(v) for v in piece.get("Extent").split()],
           "spacing": [float(v) for v in img.get("Spacing").split()], "origin": [float(v) for v in img.get("Origin").split()],
           "type": root.get("type"), "point": [], "cell": []}
    for sec, key in (("PointData", "point"), ("CellData", "cell")):
        node = piece.find(sec)
        if node is None:
            continue
        for da in node.findall("DataArray"):
            txt = "".join(da.text.split())
            hdr = struct.unpack("<Q", base64.b64decode(txt[:12]))[0]
            raw = base64.b64decode(txt[12:])
            arr = np.frombuffer(raw, dtype="<f4")
            out[key].append({"name": da.get("Name"), "ncomp": int(da.get("NumberOfComponents")), "data": arr.tolist(), "dtype": da.get("type"),
                             "format": da.get("format"), "header": int(hdr), "enc_len": len(txt) - 12})
    return out


def decode_log(path, sep):
    lines = open(path).read().split("\n")
    assert lines[-1] == ""
    lines = lines[:-1]
    return {"header": lines[0].split(sep), "rows": [[float(v) for v in ln.split(sep)] for ln in lines[1:]], "raw_rows": lines[1:]}


def replay(cfg, beh):
    import pymoto as pym
    g = cfg["grid"]
    dom = pym.DomainDefinition(g[0], g[1], g[2], unitx=cfg["size"][0], unity=cfg["size"][1], unitz=cfg["size"][2])
    tmp = tempfile.mkdtemp(prefix="c20-", dir=os.environ.get("TMPDIR", "/tmp"))
    try:
        vsig = [pym.Signal(t) for t, k in cfg["vecs"]]
        lsig = [pym.Signal(t) for t, s in cfg["log"]]
        wv = pym.WriteToVTI(vsig, domain=dom, saveto=os.path.join(tmp, "res", "out.vti"), overwrite=cfg["overwrite"], scale=cfg["scale"])
        logpath = os.path.join(tmp, "res", "log" + cfg["ext"])
        wl = pym.ScalarToFile(lsig, saveto=logpath, fmt=cfg["fmt"], separator=cfg["sep"])
        sep = "," if ".csv" in logpath else cfg["sep"]
        itv = itl = 0
        for i, stp in enumerate(beh["steps"]):
            try:
                import warnings
                with warnings.catch_warnings():
                    warnings.simplefilter("ignore")
                    if stp["op"] == "VTI":
                        for v, (s, (t, k)) in enumerate(zip(vsig, cfg["vecs"]), 1):
                            sh = shape_of(k, dom.nel, dom.nnodes)
                            s.state = np.array([datum(itv, v, j) for j in range(int(np.prod(sh)))], dtype=float).reshape(sh)
                        wv.response()
                        itv += 1
                    else:
                        for v, (s, (t, sh)) in enumerate(zip(lsig, cfg["log"]), 1):
                            n = int(np.prod(sh)) if sh else 1
                            vals = np.array([datum(itl, v, j) for j in range(n)], dtype=float)
                            s.state = float(vals[0]) if sh == () else (np.asfortranarray(vals.reshape(sh)) if cfg.get("logorder") == "F" else vals.reshape(sh))
                        wl.response()
                        itl += 1
            except Exception as e:
                return i, "raise/" + stp["op"], "%s response raised %s: %s" % (stp["op"], type(e).__name__, str(e)[:150])
            exp = stp["files"] if isinstance(stp["files"], dict) else {}     # ToJson prints the empty function as []
            have = sorted(os.listdir(os.path.join(tmp, "res"))) if os.path.isdir(os.path.join(tmp, "res")) else []
            want = sorted(("log" + cfg["ext"]) if f == "log" else f for f in exp)
            if have != want:
                return i, "files", "after step %d the directory holds %s, specification %s" % (i, have, want)
            for f, content in exp.items():
                if f == "log":
                    got = decode_log(logpath, sep)
                    if (got["header"] != content["header"] and sorted(got["header"]) == sorted(content["header"]) and got["header"][:1] == content["header"][:1]
                            and len(set(got["header"])) == len(got["header"]) and all(len(r) == len(got["header"]) for r in got["rows"])):
                        # the property fixes which value stands under which name, not the order of the columns of one array
                        # (arrays in column-major memory are written in memory order): compare by column name
                        perm = [got["header"].index(h) for h in content["header"]]
                        got["rows"] = [[r[j] for j in perm] for r in got["rows"]]
                        got["header"] = list(content["header"])
                    if got["header"] != content["header"]:
                        if sep.join(content["header"]).split(sep) == got["header"]:
                            # the right names were written, but a name contains the separator (index list of a 2-D signal in a csv file)
                            return i, "log-header-separator-in-tag", "header %s, specification %s" % (got["header"], content["header"])
                        return i, "log-header", "header %s, specification %s" % (got["header"], content["header"])
                    if len(got["rows"]) != len(content["rows"]):
                        return i, "log-rows", "%d rows, specification %d" % (len(got["rows"]), len(content["rows"]))
                    for r, (gr, er) in enumerate(zip(got["rows"], content["rows"])):
                        if len(gr) != len(er) or not np.allclose(gr, er, rtol=1e-3 if cfg["fmt"] == ".3e" else 1e-5, atol=1e-9):
                            return i, "log-values", "row %d parses to %s, specification %s" % (r, gr, er)
                        if got["raw_rows"][r].split(sep)[0] != str(int(er[0])):
                            return i, "log-iteration", "row %d starts with %r" % (r, got["raw_rows"][r].split(sep)[0])
                else:
                    try:
                        got = decode_vti(os.path.join(tmp, "res", f))
                    except Exception as e:
                        return i, "vti-malformed", "%s is not well-formed: %s: %s" % (f, type(e).__name__, str(e)[:100])
                    if got["type"] != "ImageData" or got["extent"] != content["extent"] or got["piece_extent"] != content["extent"]:
                        return i, "vti-extent", "%s: type %s extent %s / %s, specification %s" % (f, got["type"], got["extent"], got["piece_extent"], content["extent"])
                    if not np.allclose(got["spacing"], np.array(cfg["size"]) * cfg["scale"]) or not np.allclose(got["origin"], 0.0):
                        return i, "vti-geometry", "%s: spacing %s origin %s" % (f, got["spacing"], got["origin"])
                    for key in ("point", "cell"):
                        ga, ea = got[key], content[key]
                        if [a["name"] for a in ga] != [a["name"] for a in ea]:
                            return i, "vti-arrays", "%s %s data arrays %s, specification %s" % (f, key, [a["name"] for a in ga], [a["name"] for a in ea])
                        for a, e in zip(ga, ea):
                            if a["ncomp"] != e["ncomp"] or a["dtype"] != "Float32" or a["format"] != "binary":
                                return i, "vti-components", "%s array %s: %d components (%s, %s), specification %d" % (f, a["name"], a["ncomp"], a["dtype"], a["format"], e["ncomp"])
                            if a["data"] != [float(v) for v in e["data"]]:
                                return i, "vti-data", "%s array %s decodes to %s..., specification %s..." % (f, a["name"], a["data"][:8], e["data"][:8])
        return None
    finally:
        shutil.rmtree(tmp, ignore_errors=True)


def run(chk, replay_case=None, replay=None):
    thorough = chk.tier == "thorough"
    chk.extra["rule"] = ("a case is (configuration: domain, vectors with their kinds, overwrite, scale, log columns, format, separator; history of "
                         "VTI / log responses) printed by TLC with the abstract file system after every call")
    chk.assumptions += ["base64 / XML / text decoding is the harness's trusted projection", "data are small integers (exact in single precision)",
                        "domains where node-sized vectors are not multiples of the element count (the property's quantifier)"]
    depth = 4 if thorough else 3
    for ci, cfg in enumerate(CONFIGS):
        name, mod, cfg_text = tlc.mc("Writers", consts(cfg, cfg.get("depth", depth)), invariants=["FilesOK", "ArraysOK", "Emit", "Adm"], extra_defs="Adm == Admissible")
        r = chk.tlc_must_hold(name, cfg_text, label="Writers config %d" % ci, extra_modules={name: mod}, workers=1)
        for tag, v in r.printed:
            if tag != "BEH":
                continue
            beh = v[0]
            if replay is not None and (replay["config"] != ci or replay["ops"] != [s["op"] for s in beh["steps"]]):
                continue
            res = replay_fn(cfg, beh)
            key = {"config": ci, "ops": [s["op"] for s in beh["steps"]]}
            chk.case(key)
            if res:
                chk.violation("C20/" + res[1], "config %d %s: %s" % (ci, key["ops"], res[2]), key)


replay_fn = replay
