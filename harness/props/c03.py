"""C03 - Results depend only on current inputs and seeds, never on call history.

[S] Lifecycle.tla: version/taint model of the caches that survive between calls; TLC checks NoStale,
    StatesCurrent, ResetClean, NoSeedNoChange over all protocol-respecting histories to a depth bound
    and refutes the stale-cache / reset-keeps variants.
[R] every emitted history over {SetInput(k), Response, Seed(j), Sens, Reset} is replayed on network
    templates containing every caching component named in the property. Whenever the specification
    says the states are valid / the sensitivities are *clean* (exactly one sensitivity() since the last
    reset, for the current input and seeds), *all* signal states / sensitivities are compared with a
    freshly constructed identical network evaluated once on the same input and seeds; after Reset all
    sensitivities must be gone; Sens without seeds must change nothing.
"""
import numpy as np
import scipy.sparse as sps

from vf import par, tlc

NDESIGNS = 3


def consts(depth, record, variant="faithful"):
    return dict(NDesigns=NDESIGNS, NOut=2, Depth=depth, Record=record, Variant=variant)


# ------------------------------------------------------------------------------------------------
# network templates: build() -> (network, design signal, [output signals to seed], all signals, tol)
def designs(n, k):
    r = np.random.default_rng(100 + k)
    return 0.3 + 0.7 * r.random(n)


def left_dofs(dom, ndof=2):
    n = dom.nodes[0, :, :].flatten()
    return np.sort(np.concatenate([ndof * n + d for d in range(ndof)]))


def t_linsolve_direct():
    import pymoto as pym
    dom = pym.DomainDefinition(4, 2)
    x = pym.Signal("x", designs(dom.nel, 0))
    net = pym.Network()
    xf = net.append(pym.DensityFilter(x, domain=dom, radius=1.5))
    bc = left_dofs(dom)
    K = net.append(pym.AssembleStiffness(xf, domain=dom, bc=bc))
    f = np.zeros(dom.nnodes * 2)
    f[-1] = 1.0
    sf = pym.Signal("f", f)
    u = net.append(pym.LinSolve([K, sf]))
    c = net.append(pym.EinSum([u, sf], expression="i,i->"))
    return net, x, [c, u], [x, xf, K, u, c], 1e-8


def t_linsolve_multirhs_cg_mg():
    import pymoto as pym
    dom = pym.DomainDefinition(4, 2)
    x = pym.Signal("x", designs(dom.nel, 0))
    net = pym.Network()
    xf = net.append(pym.FilterConv(x, domain=dom, radius=1.5))
    bc = left_dofs(dom)
    K = net.append(pym.AssembleStiffness(xf, domain=dom, bc=bc))
    f = np.zeros((dom.nnodes * 2, 2))
    f[-1, 0] = 1.0
    f[-2, 1] = 1.0
    sf = pym.Signal("f", f)
    solver = pym.solvers.CG(preconditioner=pym.solvers.GeometricMultigrid(dom), tol=1e-11)
    u = net.append(pym.LinSolve([K, sf], solver=solver))
    c = net.append(pym.EinSum([u, sf], expression="ij,ij->"))
    return net, x, [c, u], [x, xf, K, u, c], 1e-6


def t_system_of_equations():
    import pymoto as pym
    dom = pym.DomainDefinition(3, 2)
    x = pym.Signal("x", designs(dom.nel, 0))
    net = pym.Network()
    K = net.append(pym.AssembleStiffness(x, domain=dom))
    n = dom.nnodes * 2
    pres = left_dofs(dom)
    free = np.setdiff1d(np.arange(n), pres)
    r = np.random.default_rng(5)
    bf = pym.Signal("bf", r.random(free.size) - 0.5)
    xp = pym.Signal("xp", 0.1 * (r.random(pres.size) - 0.5))
    m = pym.SystemOfEquations([K, bf, xp], free=free, prescribed=pres)
    net.append(m)
    xs, b = m.sig_out
    return net, x, [xs, b], [x, K, xs, b], 1e-8


def t_static_condensation():
    import pymoto as pym
    dom = pym.DomainDefinition(3, 2)
    x = pym.Signal("x", designs(dom.nel, 0))
    net = pym.Network()
    K = net.append(pym.AssembleStiffness(x, domain=dom))
    n = dom.nnodes * 2
    pres = left_dofs(dom)
    main = np.array([n - 1, n - 2])
    free = np.setdiff1d(np.arange(n), np.concatenate([pres, main]))
    Kr = net.append(pym.StaticCondensation(K, main=main, free=free))
    t = net.append(pym.EinSum(Kr, expression="ii->"))
    return net, x, [t, Kr], [x, K, Kr, t], 1e-8


def t_eigen_dense():
    import pymoto as pym
    dom = pym.DomainDefinition(2, 2)
    x = pym.Signal("x", designs(dom.nel, 0))
    net = pym.Network()
    n = dom.nnodes * 2
    shift = sps.diags(1.0 + 0.37 * np.arange(n)).tocsc()   # makes the spectrum simple (no multiplicity)

    class ToDense(pym.Module):
        def _response(self, A):
            return A.toarray()

        def _sensitivity(self, dA):
            return dA
    K = net.append(pym.AssembleStiffness(x, domain=dom, add_constant=shift))
    Kd = net.append(ToDense(K))
    m = pym.EigenSolve(Kd)
    net.append(m)
    lam, Q = m.sig_out
    return net, x, [lam, Q], [x, K, Kd, lam, Q], 1e-6


def t_eigen_sparse():
    import pymoto as pym
    dom = pym.DomainDefinition(3, 2)
    x = pym.Signal("x", designs(dom.nel, 0))
    net = pym.Network()
    bc = left_dofs(dom)
    K = net.append(pym.AssembleStiffness(x, domain=dom, bc=bc))
    M = net.append(pym.AssembleMass(x, domain=dom, bc=bc, ndof=2, material_property=1.0, bcdiagval=1e-3))
    m = pym.EigenSolve([K, M], nmodes=3, hermitian=True)
    net.append(m)
    lam, Q = m.sig_out
    return net, x, [lam, Q], [x, K, M, lam, Q], 1e-5


def t_overhang():
    import pymoto as pym
    dom = pym.DomainDefinition(3, 3)
    x = pym.Signal("x", designs(dom.nel, 0))
    net = pym.Network()
    y = net.append(pym.OverhangFilter(x, domain=dom, direction=[0, 1]))
    z = net.append(pym.OverhangFilter(y, domain=dom, direction="x"))
    s = net.append(pym.EinSum(z, expression="i->"))
    return net, x, [s, z], [x, y, z, s], 1e-9


def t_aggregation():
    import pymoto as pym
    x = pym.Signal("x", designs(10, 0) + 0.5)
    net = pym.Network()
    a = net.append(pym.PNorm(x, p=4, scaling=pym.AggScaling("max", damping=0.0),
                             active_set=pym.AggActiveSet(lower_rel=0.1, upper_rel=0.98, lower_amt=0.2, upper_amt=0.9)))
    b = net.append(pym.KSFunction(x, rho=-3.0, scaling=pym.AggScaling("min", damping=0.0)))
    return net, x, [a, b], [x, a, b], 1e-9


class TableInputs:
    """design signal whose k-th design comes from an explicit table"""
    def __init__(self, sig, table):
        self.sig, self.table = sig, [np.array(t, dtype=float) for t in table]

    def set(self, k):
        self.sig.state = self.table[k].copy()


def t_stored_zeros_linsolve():
    """a user-defined assembly with a FIXED stored sparsity pattern (explicit zeros, as AssembleGeneral stores them) feeding
    LinSolve: which dofs are decoupled - and divided out by the LDAS wrapper - changes from design to design while the
    stored structure stays the same"""
    import pymoto as pym
    n = 5
    rows = np.array([i for i in range(n)] + [i for i in range(n - 1)] + [i + 1 for i in range(n - 1)])
    cols = np.array([i for i in range(n)] + [i + 1 for i in range(n - 1)] + [i for i in range(n - 1)])
    table = [[0.0, 0.0, 0.5, 0.7], [0.4, 0.3, 0.0, 0.0], [0.6, 0.0, 0.2, 0.9]]

    class Chain(pym.Module):
        def _response(self, x):
            vals = np.concatenate([2.0 + 0.1 * np.arange(n), -x, -x])
            return sps.csc_matrix((vals, (rows, cols)), shape=(n, n))

        def _sensitivity(self, dA):
            d = dA.todense() if hasattr(dA, "todense") else np.asarray(dA)
            d = np.asarray(d)
            return -np.array([d[k, k + 1] + d[k + 1, k] for k in range(n - 1)])
    x = pym.Signal("x", np.array(table[0]))
    net = pym.Network()
    A = net.append(Chain(x))
    b = pym.Signal("b", np.array([1.0, -2.0, 0.5, 3.0, 1.5]))
    u = net.append(pym.LinSolve([A, b]))
    c = net.append(pym.EinSum([u, b], expression="i,i->"))
    return net, TableInputs(x, table), [c, u], [x, A, u, c], 1e-9


TEMPLATES = {
    "user assembly with stored zeros+LinSolve(direct,LDAS)": t_stored_zeros_linsolve,
    "filter+stiffness+LinSolve(direct,LDAS)": t_linsolve_direct,
    "filterconv+stiffness+LinSolve(CG+multigrid,2rhs)": t_linsolve_multirhs_cg_mg,
    "stiffness+SystemOfEquations": t_system_of_equations,
    "stiffness+StaticCondensation": t_static_condensation,
    "stiffness+EigenSolve(dense)": t_eigen_dense,
    "stiffness+mass+EigenSolve(sparse,nmodes=3)": t_eigen_sparse,
    "OverhangFilter x2": t_overhang,
    "PNorm+KS (undamped scaling, active set)": t_aggregation,
}


# ------------------------------------------------------------------------------------------------
# generic templates: every library-module configuration of modtable.py as a one-module network whose inputs all change
# with the design index (documented memories - Scaling - excluded)
def _vary(base, k, j):
    """the k-th variant of input j: the same class of value (symmetry / definiteness / sparsity pattern are preserved)"""
    if k == 0:
        return base
    f = 1.0 - 0.06 * k * (1 + (j % 3))
    if sps.issparse(base):
        out = (base * f).asformat(base.format)
        if base.shape[0] == base.shape[1]:
            out = (out + 0.05 * k * abs(base.diagonal()).max() * sps.identity(base.shape[0], format=base.format)).asformat(base.format)
        return out
    a = np.asarray(base)
    if a.ndim == 2 and a.shape[0] == a.shape[1] and a.shape[0] > 1:
        return a * f + 0.05 * k * np.abs(np.diag(a)).max() * np.eye(a.shape[0])
    if a.ndim == 0:
        return type(base)(a * f) if isinstance(base, (float, complex)) else a * f
    r = np.random.default_rng(7 + a.size + 31 * j)
    return a * (f + 0.1 * k * r.random(a.shape))


def generic_template(ename, inplace=False):
    def build():
        import modtable
        ent = [e for e in modtable.entries(0) if e.name == ename][0]
        import pymoto as pym
        mod, ins, outs = ent.make()
        net = pym.Network(mod)
        outs = list(outs)
        x = GenericInputs(ins, inplace)
        return net, x, outs[:2], list(ins) + outs, max(ent.tol * 10, 1e-8)
    return build


class GenericInputs:
    def __init__(self, ins, inplace=False):
        self.ins = list(ins)
        self.inplace = inplace
        self.base = [(s.state.copy() if hasattr(s.state, "copy") else s.state) for s in self.ins]

    def set(self, k):
        for j, (s, b) in enumerate(zip(self.ins, self.base)):
            v = _vary(b, k, j)
            cur = s.state
            if self.inplace and isinstance(cur, np.ndarray) and isinstance(v, np.ndarray) and cur.shape == v.shape and cur.dtype == v.dtype and cur.ndim > 0:
                cur[...] = v                 # the caller updates the array the signal holds (same object, new values)
            elif (self.inplace and sps.issparse(cur) and sps.issparse(v) and cur.format == v.format and cur.shape == v.shape
                  and cur.nnz == v.nnz and np.array_equal(cur.indices, v.indices) and np.array_equal(cur.indptr, v.indptr)):
                cur.data[...] = v.data
            else:
                s.state = v


def generic_names():
    import modtable
    names = [e.name for e in modtable.entries(0) if not e.name.startswith("Scaling/")]
    return ["mod:" + n for n in names] + ["modi:" + n for n in names]


def template(tname):
    if tname.startswith("mod:"):
        return generic_template(tname[4:])()
    if tname.startswith("modi:"):       # the same, with the inputs updated in place (same array objects)
        return generic_template(tname[5:], inplace=True)()
    return TEMPLATES[tname]()


def set_input(tname, x, k):
    if isinstance(x, (GenericInputs, TableInputs)):
        x.set(k)
    else:
        x.state = designs(x.state.size, k) + (0.5 if "PNorm" in tname else 0.0)


def dense(v):
    import pymoto as pym
    if v is None:
        return None
    if isinstance(v, pym.DyadCarrier):
        return None if v.n_dyads == 0 else np.asarray(v.todense())
    if sps.issparse(v):
        return v.toarray()
    return np.asarray(v)


def seed_value(sig, j):
    st = dense(sig.state)
    r = np.random.default_rng(1000 + j)
    w = r.random(st.shape) - 0.3
    return float(w) if st.shape == () else w


def apply_seeds(tname, outs, seeds):
    """assign the output sensitivities for the set of active seeds. Default: seed j = a fixed random value on output j.
    Eigen templates: seed 1 = eigenvalues and the first eigenvector column only, seed 2 = the remaining eigenvector columns
    (partially seeded eigenvector matrices exercise the per-mode adjoint caches)."""
    if "EigenSolve" in tname:
        lam, Q = outs
        wq = seed_value(Q, 2)
        tot = np.zeros_like(wq)
        if 1 in seeds:
            lam.sensitivity = seed_value(lam, 1)
            tot[:, 0] += wq[:, 0]
        if 2 in seeds:
            tot[:, 1:] += wq[:, 1:]
        Q.sensitivity = tot
        return
    for j in seeds:
        if j <= len(outs):      # one-output modules: the second seed of the history is a no-op
            outs[j - 1].sensitivity = seed_value(outs[j - 1], j)


def same(a, b, tol):
    if a is None and b is None:
        return True, 0.0
    if a is None or b is None:
        o = a if a is not None else b
        e = float(np.max(np.abs(o))) if np.size(o) else 0.0
        return e <= tol, e
    if a.shape != b.shape:
        return False, float("inf")
    sc = max(1.0, float(np.max(np.abs(b))) if b.size else 1.0)
    e = float(np.max(np.abs(a - b))) if a.size else 0.0
    return e <= tol * sc, e / sc


def fresh_eval(tname, k, seeds):
    net, x, outs, sigs, tol = template(tname)
    set_input(tname, x, k)
    net.response()
    if seeds:
        apply_seeds(tname, outs, list(seeds))
        net.sensitivity()
    return [dense(s.state) for s in sigs], [dense(s.sensitivity) for s in sigs]


def replay(tname, steps):
    import warnings
    net, x, outs, sigs, tol = template(tname)
    cache = {}
    for i, stp in enumerate(steps):
        op = stp["op"]
        sens_before = [dense(s.sensitivity) for s in sigs]
        sens_before = [None if v is None else v.copy() for v in sens_before]
        try:
            with warnings.catch_warnings():
                warnings.simplefilter("ignore")
                if op == "SetInput":
                    set_input(tname, x, stp["args"][0])
                elif op == "Response":
                    net.response()
                elif op == "Seed":
                    apply_seeds(tname, outs, list(stp["seeds"]))
                elif op == "Sens":
                    net.sensitivity()
                elif op == "Reset":
                    net.reset()
        except Exception as e:
            return i, "raise/" + op, "%s raised %s: %s" % (op, type(e).__name__, str(e)[:200])
        if op == "Sens" and not stp["seeds"]:
            for sb, s in zip(sens_before, sigs):
                ok, err = same(dense(s.sensitivity), sb, 0.0)
                if not ok:
                    return i, "noseed", "sensitivity() without any seed changed the sensitivity of %s" % s.tag
        if stp["nosens"]:
            for s in sigs:
                v = dense(s.sensitivity)
                if v is not None and np.any(v != 0):
                    return i, "reset", "after %s signal %s still holds a sensitivity" % (op, s.tag)
        if op == "Response" or (op == "Sens" and stp["clean"]):
            key = (stp["inp"], tuple(stp["seeds"]) if op == "Sens" else ())
            if key not in cache:
                with warnings.catch_warnings():
                    warnings.simplefilter("ignore")
                    cache[key] = fresh_eval(tname, *key)
            fst, fse = cache[key]
            if stp["statesValid"]:
                for s, ref in zip(sigs, fst):
                    ok, err = same(dense(s.state), ref, tol)
                    if not ok:
                        return i, "state", "after %s the state of %s differs from a fresh network (rel. error %.3g)" % (op, s.tag, err)
            if op == "Sens" and stp["clean"]:
                for s, ref in zip(sigs, fse):
                    ok, err = same(dense(s.sensitivity), ref, tol)
                    if not ok:
                        return i, "sens", "after a clean cycle the sensitivity of %s differs from a fresh network (rel. error %.3g)" % (s.tag, err)
    return None


def reset_clears_everything(chk):
    """[O] reset() leaves nothing behind whatever the sensitivity holds - also values an earlier, failed cycle left there
    (overflowed exponentials: inf / nan). Allocated sensitivities are zeroed in place, others dropped."""
    import pymoto as pym
    import warnings
    for dt in (float, complex):
        for bad in (np.inf, -np.inf, np.nan):
            for keep in (None, True, False):
                x = np.arange(4, dtype=dt)
                buf = np.zeros(4, dtype=dt)
                s = pym.Signal("x", x, buf) if keep is not False else pym.Signal("x", x)
                with warnings.catch_warnings():
                    warnings.simplefilter("ignore")
                    s.add_sensitivity(np.array([1.0, bad, 2.0, 0.0], dtype=dt))
                    if keep is None:
                        s.reset()
                    else:
                        s.reset(keep_alloc=keep)
                    s.add_sensitivity(np.ones(4, dtype=dt))
                chk.count()
                got = np.asarray(s.sensitivity)
                if got.shape != (4,) or not np.array_equal(got, np.ones(4, dtype=dt)):
                    chk.violation("C03/reset/non-finite", "a sensitivity holding %s (%s, keep_alloc=%s) is not cleared by reset(): the next contribution gives %s"
                                  % (bad, dt.__name__, keep, got.tolist()), {"bad": str(bad), "dtype": dt.__name__, "keep_alloc": keep})


def _replay_chunk(arg):
    tname, behs = arg
    return [(tname, replay(tname, b)) for b in behs]


def run(chk, replay=None):
    thorough = chk.tier == "thorough"
    if replay is not None:
        r = replay_fn(replay["template"], replay["steps"])
        chk.case(replay)
        if r is not None:
            chk.violation("C03/%s" % r[1], r[2], replay)
        return
    chk.extra["rule"] = ("a case is (network template, history over SetInput/Response/Seed/Sens/Reset emitted by TLC from "
                         "Lifecycle.tla); non-trivial = the history contains a clean sensitivity cycle after at least one earlier "
                         "response or input change")
    chk.assumptions += ["the matrix class (symmetric/Hermitian/definite) is the same for every design of a template",
                        "tolerances: 1e-8..1e-9 direct, 1e-5..1e-6 where CG/ARPACK is involved",
                        "documented memories (Scaling normalisation, damped AggScaling, writer counters) are excluded"]
    d = 10 if thorough else 8
    name, mod, cfg = tlc.mc("Lifecycle", consts(d, False), invariants=["NoStale", "StatesCurrent"],
                            properties=["ResetClean", "NoSeedNoChange"], constraint="DepthBound")
    chk.tlc_must_hold(name, cfg, label="Lifecycle depth %d" % d, extra_modules={name: mod})
    for variant in ("stale_factorisation", "stale_adjoint_cache", "reset_keeps"):
        name, mod, cfg = tlc.mc("Lifecycle", consts(8, False, variant), invariants=["NoStale", "StatesCurrent"],
                                properties=["ResetClean", "NoSeedNoChange"], constraint="DepthBound")
        r = tlc.run(name, cfg, extra_modules={name: mod}, expect_violation=True)
        if r.violated is None:
            raise tlc.TLCError("negative variant %s of Lifecycle.tla was not refuted" % variant)
    behs = []

    def emit(depth, spec="Spec", simulate=None, label=""):
        name, mod, cfg = tlc.mc("Lifecycle", consts(depth, True), spec=spec, invariants=["Emit"])
        r = chk.tlc(name, cfg, label="emit %s depth %d" % (label or spec, depth), extra_modules={name: mod}, workers=1,
                    simulate=simulate, depth=depth + 4 if simulate else None, seed=chk.seed + 11)
        return [v[0]["steps"] for tag, v in r.printed if tag == "BEH"]
    behs += emit(5 if thorough else 4)                       # every protocol-respecting history
    behs += emit(11 if thorough else 9, spec="SpecS")         # every optimisation-loop-shaped history (>= 2 cycles)
    behs += emit(16, simulate=1500 if thorough else 100)
    behs += emit(22, spec="SpecS", simulate=3000 if thorough else 200)

    def interesting(b):
        prior = False
        for s in b:
            if s["op"] == "Sens" and s["clean"] and prior:
                return True
            if s["op"] in ("Response", "SetInput"):
                prior = True
        return False
    behs = [b for b in behs if any(s["op"] == "Response" for s in b)]
    # the per-mode adjoint caches of the sparse EigenSolve need three cycles to go stale: deeper loop-shaped histories for it
    deep = [b for b in emit(12 if thorough else 11, spec="SpecS") if sum(1 for s in b if s["op"] == "Sens") >= 3 and any(s["op"] == "SetInput" for s in b)]
    jobs = []
    for tname in TEMPLATES:
        for part in par.chunks(behs + (deep if "EigenSolve(sparse" in tname else []), 6 if "EigenSolve(sparse" not in tname else 14):
            jobs.append((tname, part))
    # every library-module configuration as a one-module network: a sample of the histories with a clean cycle after earlier activity
    import random
    good = [b for b in behs + deep if interesting(b)]
    gnames = generic_names()
    for gi, tname in enumerate(gnames):
        nb = (120 if thorough else 16) if tname.startswith("mod:") else (60 if thorough else 8)
        pick = random.Random(chk.seed * 1000 + gi).sample(good, min(len(good), nb))
        for part in par.chunks(pick, 8):
            jobs.append((tname, part))
    results = par.pmap(_replay_chunk, jobs)
    for (tname, part), out in zip(jobs, results):
        for b, (_, res) in zip(part, out):
            case = {"template": tname, "ops": [[s["op"], s["args"]] for s in b]}
            chk.case(case, nontrivial=interesting(b))
            if res is not None:
                i, kind, what = res
                chk.violation("C03/%s/%s" % (tname.split("(")[0] if not tname.startswith("mod") else tname.split("/")[0], kind), "%s: %s" % (tname, what), dict(case, steps=b[:i + 1], failing_step=i))
    chk.extra["templates"] = list(TEMPLATES) + gnames
    reset_clears_everything(chk)


replay_fn = replay
