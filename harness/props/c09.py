"""C09 - Density filters are the normalised local averages they are defined to be.

[S] Filt.tla: (a) PadAxisSound - the operational per-axis padding (wrap first, then upper edge, then lower
    edge) equals the declarative extension rule for every mode pair, n <= 4, pad <= 2; (b) C09conv - on every
    grid / integer kernel / boundary-mode combination the operational filter equals the declarative one
    (extend along x, then y, then z; later constant overrides win) on the zero field and every unit field
    (complete, the map is affine), constants are preserved and outputs are convex combinations for
    non-negative kernels without constant padding, and symmetric padding with a mirror-symmetric kernel
    preserves the total; (c) SupportProps of the cone kernel.
[R] FilterConv(weights=...) is compared exactly with TLC's zero-field response and unit-field columns;
    DensityFilter / FilterConv(radius) are compared on TLC's support structure (pairs with d^2 < r^2 and their
    exact squared distances) with the cone weight formula evaluated by the harness ([R*]).
"""
import concurrent.futures as cf
import itertools
import random

import numpy as np

from vf import par, tlc

M4 = ["symmetric", "edge", "wrap", "c2"]
K_ASYM33 = [[[1], [2], [4]], [[3], [5], [7]], [[2], [1], [6]]]
K_ASYM31 = [[[2]], [[1]], [[5]]]
K_ASYM13 = [[[3], [1], [2]]]
K_SYM33 = [[[1], [2], [1]], [[3], [4], [3]], [[1], [2], [1]]]
K_ASYM53 = [[[1], [0], [2]], [[2], [1], [0]], [[0], [3], [1]], [[4], [0], [1]], [[1], [2], [3]]]
K_ASYM333 = [[[1, 2, 0], [0, 1, 3], [2, 0, 1]], [[0, 1, 1], [4, 2, 0], [1, 0, 2]], [[3, 0, 1], [1, 1, 0], [0, 2, 5]]]
K_SYM333 = [[[1, 2, 1], [2, 3, 2], [1, 2, 1]], [[2, 3, 2], [3, 5, 3], [2, 3, 2]], [[1, 2, 1], [2, 3, 2], [1, 2, 1]]]


def tup3(k):
    return tuple(tuple(tuple(c) for c in b) for b in k)


def consts(grids, kernels, modesets, variant="faithful"):
    return dict(Grids={tuple(g) for g in grids}, Kernels={tup3(k) for k in kernels}, ModeSets={tuple(m) for m in modesets},
                Variant=variant, Radii2={(1, 1)}, SizeSets={((1, 1), (1, 1), (1, 1))})


def modes2d():
    return [(a, b, c, d, "symmetric", "symmetric") for a in M4 for b in M4 for c in M4 for d in M4]


def check_conv(chk, grids, kernels, modesets, label):
    name, mod, cfg = tlc.mc("Filt", consts(grids, kernels, modesets), invariants=["C09conv"])
    return chk.tlc_must_hold(name, cfg, label=label, extra_modules={name: mod})


def emit_conv(grids, kernels, modesets):
    name, mod, cfg = tlc.mc("Filt", consts(grids, kernels, modesets), invariants=["Emit"])
    return tlc.run(name, cfg, extra_modules={name: mod}, workers=1, timeout=3000)


def mode_arg(m):
    return float(m[1:]) if m.startswith("c") else m


def check_conv_case(c):
    import pymoto as pym
    g = c["grid"]
    dom = pym.DomainDefinition(g[0], g[1], g[2] if g[2] > 1 or c.get("force3d") else 0) if g[2] > 1 else pym.DomainDefinition(g[0], g[1])
    w = np.array(c["kernel"], dtype=float)
    md = c["modes"]
    kw = dict(xmin_bc=mode_arg(md[0]), xmax_bc=mode_arg(md[1]), ymin_bc=mode_arg(md[2]), ymax_bc=mode_arg(md[3]))
    if dom.dim == 3:
        kw.update(zmin_bc=mode_arg(md[4]), zmax_bc=mode_arg(md[5]))
    wk = w if dom.dim == 3 else w[:, :, 0]
    n = dom.nel
    s = pym.Signal("x", np.zeros(n))
    m = pym.FilterConv(s, domain=dom, weights=wk, **kw)
    y0 = m.response().sig_out[0].state.copy()
    if not np.array_equal(y0, np.array(c["y0"], dtype=float)):
        return "zero-field", "grid %s modes %s: zero field gives %s, specification %s" % (g, md, y0.tolist(), c["y0"])
    J = np.array(c["cols"], dtype=float).T - np.array(c["y0"], dtype=float)[:, None]    # J[:, e] = y(e_e) - y0
    for e in range(n):
        x = np.zeros(n)
        x[e] = 1.0
        s.state = x
        y = m.response().sig_out[0].state
        if not np.array_equal(y, np.array(c["cols"][e], dtype=float)):
            return "unit-field", "grid %s kernel %s modes %s: unit field %d gives %s, specification %s" % (g, np.shape(w), md, e, y.tolist(), c["cols"][e])
    # a generic field by affinity, and the adjoint of the linear part (used by C01 as well)
    r = np.random.default_rng(n + len(md[0]))
    x = r.integers(-3, 4, n).astype(float)
    s.state = x
    y = m.response().sig_out[0].state
    if not np.allclose(y, y0 + J @ x, rtol=0, atol=1e-9):
        return "affine", "grid %s modes %s: generic field differs from y0 + J x" % (g, md)
    return None


def _chunk(cases):
    out = []
    for c in cases:
        try:
            out.append(check_conv_case(c))
        except Exception as e:
            out.append(("raise", "grid %s modes %s kernel %s raised %s: %s" % (c["grid"], c["modes"], np.shape(c["kernel"]), type(e).__name__, str(e)[:150])))
    return out


# ---- cone kernels ---------------------------------------------------------------------------------
def q(v):
    return v[0] / v[1]


def emit_supp(grids, radii2, sizes):
    c = dict(Grids={tuple(g) for g in grids}, Kernels={tup3(K_ASYM13)}, ModeSets={("symmetric",) * 6}, Variant="faithful",
             Radii2={tuple(r) for r in radii2}, SizeSets={tuple(tuple(v) for v in s) for s in sizes})
    name, mod, cfg = tlc.mc("Filt", c, spec="SpecSupp", invariants=["SuppOK", "EmitSupp"])
    return tlc.run(name, cfg, extra_modules={name: mod}, workers=1, timeout=3000)


def check_supp_case(c):
    """structure from TLC (pairs and exact squared distances); weight formula max(0, r - d) here"""
    import pymoto as pym
    g = c["grid"]
    size = [q(v) for v in c["size"]]
    r = float(np.sqrt(q(c["r2"])))
    dom = pym.DomainDefinition(g[0], g[1], g[2] if g[2] > 1 else 0, unitx=size[0], unity=size[1], unitz=size[2])
    n = dom.nel
    H = np.zeros((n, n))
    for e, f, d2 in c["pairs"]:
        H[e, f] = r - np.sqrt(q(d2))
    rng = np.random.default_rng(n)
    x = rng.random(n)
    unit = all(abs(v - 1) < 1e-15 for v in size[:dom.dim])
    res = []
    if unit:
        # DensityFilter works in element units
        y = pym.DensityFilter(pym.Signal("x", x), domain=dom, radius=r).response().sig_out[0].state
        yexp = (H @ x) / H.sum(axis=1)
        if not np.allclose(y, yexp, rtol=1e-12, atol=1e-14):
            return "density", "DensityFilter(radius=%r) on grid %s differs from the normalised cone average (max err %.3g)" % (r, g, np.max(np.abs(y - yexp)))
        for xc in (np.ones(n) * 0.7,):
            yc = pym.DensityFilter(pym.Signal("x", xc), domain=dom, radius=r).response().sig_out[0].state
            if not np.allclose(yc, xc, rtol=1e-13):
                return "density-const", "DensityFilter does not preserve a constant field"
        if np.any(y < x.min() - 1e-13) or np.any(y > x.max() + 1e-13):
            return "density-range", "DensityFilter output leaves [min x, max x]"
        nonpad = np.arange(0, n, 2)
        y = pym.DensityFilter(pym.Signal("x", x), domain=dom, radius=r, nonpadding=nonpad).response().sig_out[0].state
        Hs = H.sum(axis=1)
        Hs2 = Hs.copy()
        Hs2[~np.isin(np.arange(n), nonpad)] = Hs.max()
        if not np.allclose(y, (H @ x) / Hs2, rtol=1e-12, atol=1e-14):
            return "density-nonpadding", "DensityFilter(nonpadding) differs"
    # FilterConv(radius): the same cone; its normalisation is fixed by "the kernel sums to one" (constants are
    # preserved under symmetric padding), so with zero padding the output must be proportional to the cone sums
    for rel in ((True, False) if unit else (False,)):
        m = pym.FilterConv(pym.Signal("x", x), domain=dom, radius=r, relative_units=rel,
                           xmin_bc=0.0, xmax_bc=0.0, ymin_bc=0.0, ymax_bc=0.0, zmin_bc=0.0, zmax_bc=0.0)
        y = m.response().sig_out[0].state
        hx = H @ x
        alpha = float(y @ hx) / float(hx @ hx)
        if not (alpha > 0 and np.allclose(y, alpha * hx, rtol=1e-11, atol=1e-13)):
            return "conv-radius", "FilterConv(radius=%r, relative=%s) on grid %s size %s is not proportional to the cone-weighted sums (max err %.3g)" % (
                r, rel, g, size, np.max(np.abs(y - alpha * hx)))
        if abs(m.weights.sum() - 1.0) > 1e-12 or np.any(m.weights < 0):
            return "conv-radius-kernel", "the radius kernel is not non-negative with unit sum"
        ms = pym.FilterConv(pym.Signal("x", np.ones(n) * 0.3), domain=dom, radius=r, relative_units=rel)
        if not np.allclose(ms.response().sig_out[0].state, 0.3, rtol=1e-13):
            return "conv-radius-const", "FilterConv(radius) with symmetric padding does not preserve a constant"
        ms.sig_in[0].state = x
        ys = ms.response().sig_out[0].state
        if abs(ys.sum() - x.sum()) > 1e-11:
            return "conv-radius-volume", "FilterConv(radius) with symmetric padding does not preserve the volume"
        if np.any(ys < x.min() - 1e-13) or np.any(ys > x.max() + 1e-13):
            return "conv-radius-range", "FilterConv(radius) output leaves [min x, max x]"
    return None


def run(chk, replay=None):
    if replay is not None and replay.get("override"):
        override_relation(chk)
        return
    if replay is not None:
        res = check_supp_case(replay) if "pairs" in replay else check_conv_case(replay)
        chk.case({k: replay[k] for k in replay if k not in ("cols", "pairs")})
        if res:
            chk.violation("C09/" + res[0], res[1], replay)
        return
    thorough = chk.tier == "thorough"
    chk.extra["rule"] = ("a convolution case is (grid, integer kernel, boundary modes) with TLC's response to the zero field and to every "
                         "unit field (complete: the filter is affine); a cone case is (grid, r^2, element sizes) with TLC's interacting pairs "
                         "and exact squared distances")
    chk.assumptions += ["kernel half-width <= number of elements per axis", "cone weights max(0, r - d) are evaluated by the harness on TLC's structure [R*]"]
    # per-axis padding
    name, mod, cfg = tlc.mc("Filt", consts([[1, 1, 1]], [K_ASYM13], [("symmetric",) * 6]), invariants=["PadOK"], extra_defs="PadOK == PadAxisSound")
    r = chk.tlc(name, cfg, label="PadAxisSound", extra_modules={name: mod})
    if r.violated is not None:
        raise tlc.TLCError("PadAxisSound fails")
    name, mod, cfg = tlc.mc("Filt", consts([[2, 2, 1]], [K_ASYM33], [("symmetric", "c2", "c1", "edge", "symmetric", "symmetric")], "x_override_last"), invariants=["C09conv"])
    r = tlc.run(name, cfg, extra_modules={name: mod}, expect_violation=True)
    if r.violated is None:
        raise tlc.TLCError("negative variant x_override_last of Filt.tla was not refuted")
    g2 = [[a, b, 1] for a in range(1, 5) for b in range(1, 4)]
    rnd = random.Random(chk.seed + 21)
    all6 = list(itertools.product(M4, repeat=6))
    m3 = all6 if thorough else rnd.sample(all6, 160)
    spaces = [(g2, [K_ASYM33, K_ASYM31, K_ASYM13, K_SYM33, K_ASYM53], modes2d(), "2D all 4^4 modes"),
              ([[2, 2, 2], [3, 2, 2]] if not thorough else [[2, 2, 2], [3, 2, 2], [2, 3, 3]], [K_ASYM333, K_SYM333], m3, "3D modes")]
    for grids, kernels, modesets, label in spaces:
        check_conv(chk, grids, kernels, modesets, "C09conv " + label)
    jobs = []
    with cf.ThreadPoolExecutor(max_workers=14) as ex:
        for grids, kernels, modesets, label in spaces:
            for g in grids:
                jobs.append(ex.submit(emit_conv, [g], kernels, modesets))
        for j in cf.as_completed(jobs):
            r = j.result()
            chk.transitions += r.generated
            chk.tlc_runs.append({"module": "Filt", "label": "emit conv", "generated": r.generated, "wall_s": round(r.wall, 2)})
            cases = [v[0] for tag, v in r.printed if tag == "CONV"]
            for part_c, part in zip(par.chunks(cases, 14), par.pmap(_chunk, par.chunks(cases, 14))):
                for c, res in zip(part_c, part):
                    chk.case({"grid": c["grid"], "kernel": c["kernel"], "modes": c["modes"]})
                    if res:
                        chk.violation("C09/conv/" + res[0], res[1], c)
    # cone kernels
    radii2 = [(1, 4), (1, 1), (25, 16), (2, 1), (9, 4), (4, 1), (25, 4), (9, 1), (49, 4), (100, 1)]
    sizes = [((1, 1), (1, 1), (1, 1)), ((1, 2), (3, 2), (1, 1)), ((2, 1), (1, 1), (1, 2))]
    sgrids = [[1, 1, 1], [3, 1, 1], [1, 3, 1], [4, 3, 1], [3, 3, 1], [2, 2, 2], [3, 2, 2]] + ([[5, 4, 1], [3, 3, 3]] if thorough else [])
    r = emit_supp(sgrids, radii2, sizes)
    if r.violated is not None:
        raise tlc.TLCError("Filt.tla violates %s" % r.violated)
    chk.states += r.distinct
    chk.transitions += r.generated
    chk.tlc_runs.append({"module": "Filt", "label": "support structure", "distinct": r.distinct, "generated": r.generated, "wall_s": round(r.wall, 2)})
    for tag, v in r.printed:
        if tag != "SUPP":
            continue
        c = v[0]
        try:
            res = check_supp_case(c)
        except Exception as e:
            res = ("raise", "grid %s r2 %s size %s raised %s: %s" % (c["grid"], c["r2"], c["size"], type(e).__name__, str(e)[:150]))
        chk.case({"grid": c["grid"], "r2": c["r2"], "size": c["size"]})
        if res:
            chk.violation("C09/cone/" + res[0], res[1], c)
    override_relation(chk)


def override_relation(chk):
    """[R+] value overrides (FilterConv.override_values): with constant-valued boundaries on every side the padding does not depend
    on the field, so overriding the entries `index` by c must give exactly the plain filter (bound to Filt.tla above) applied to the
    field with those entries replaced. Integer fields and kernels, kernels with different half-widths per axis."""
    import pymoto as pym
    rng = np.random.default_rng(909)
    grids = [(4, 5, 0), (5, 3, 0), (3, 4, 2)]
    kernels2 = [(3, 5, 1), (5, 3, 1), (1, 3, 1), (3, 1, 1), (3, 3, 1)]
    kernels3 = [(3, 1, 3), (1, 3, 3), (3, 3, 1)]
    for g in grids:
        dom = pym.DomainDefinition(*g)
        shape = (g[0], g[1], max(g[2], 1))
        bcs = dict(xmin_bc=2.0, xmax_bc=1.0, ymin_bc=0.0, ymax_bc=3.0)
        if g[2] > 0:
            bcs.update(zmin_bc=1.0, zmax_bc=-1.0)
        for ks in (kernels3 if g[2] > 0 else kernels2):
            w = rng.integers(0, 4, ks).astype(float)
            w[tuple(k // 2 for k in ks)] += 1.0
            for index in ((slice(0, 2), slice(1, 3), slice(None)), (np.array([0, shape[0] - 1]), np.array([shape[1] - 1, 0]), np.array([0, shape[2] - 1])),
                          (slice(None), slice(shape[1] - 1, shape[1]), slice(None))):
                x = rng.integers(-3, 4, dom.nel).astype(float)
                val = 5.0
                s1 = pym.Signal("x", x.copy())
                m1 = pym.FilterConv(s1, domain=dom, weights=w.copy(), **bcs)
                m1.override_values(index, val)
                x3 = x.reshape(shape, order="F").copy()     # element number = i + nx * j + nx * ny * k
                x3[index] = val
                s2 = pym.Signal("x", x3.reshape(-1, order="F"))
                m2 = pym.FilterConv(s2, domain=dom, weights=w.copy(), **bcs)
                case = {"override": True, "grid": list(g), "kernel": list(ks), "index": str(index)}
                chk.case(case)
                try:
                    y1 = m1.response().sig_out[0].state
                    y2 = m2.response().sig_out[0].state
                except Exception as e:
                    chk.violation("C09/override/raise", "grid %s kernel %s index %s raised %s: %s" % (g, ks, index, type(e).__name__, str(e)[:120]), case)
                    continue
                if not np.array_equal(y1, y2):
                    chk.violation("C09/override/values", "grid %s kernel %s: overriding %s by %s differs from filtering the field with those entries replaced (max diff %s)"
                                  % (g, ks, index, val, float(np.abs(y1 - y2).max())), case)
