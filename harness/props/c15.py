"""C15 - DyadCarrier behaves exactly like the dense matrix it represents.

[S] DyadAlg.tla defines every public DyadCarrier operation by dense Gaussian-integer matrix algebra on
    three carrier slots; TLC checks ShapeClosure, TypeSound and Frame (no operand but the in-place target
    changes) over all operation sequences to a depth bound.
[R] all operation sequences to depth 2/3 and simulated sequences of depth 8, for initial carriers with
    0, 1 and 2 dyads, unset shape, real / complex / mixed vectors, are replayed on real DyadCarrier
    objects; after every operation todense(), shape and complex-ness of all three slots and the value
    returned are compared with TLC's (exact integers).
"""
import concurrent.futures as cf
import signal

import numpy as np
import scipy.sparse as sps

from vf import par, tlc


def G(*p):
    return [list(x) for x in p]


# initial configurations: A always 2x3 with two dyads; B: one dyad / zero dyads with set shape / empty
INITS = [
    dict(Au=[G((1, 0), (2, 0)), G((0, 0), (1, 0))], Av=[G((1, 0), (0, 0), (-1, 0)), G((2, 0), (1, 0), (1, 0))],
         Bu=[G((1, 0), (-1, 0))], Bv=[G((0, 0), (1, 0), (2, 0))], Bshape=[2, 3]),                       # all real
    dict(Au=[G((1, 1), (2, 0)), G((0, 0), (1, 0))], Av=[G((1, 0), (0, 0), (-1, 0)), G((2, 0), (0, 1), (1, 0))],
         Bu=[G((1, 0), (-1, 0))], Bv=[G((0, 0), (1, 0), (2, 0))], Bshape=[2, 3]),                       # A complex (mixed), B real
    dict(Au=[G((1, 0), (2, 0)), G((0, 1), (1, 0))], Av=[G((1, 0), (0, 0), (-1, 0)), G((2, 0), (1, 0), (1, 0))],
         Bu=[], Bv=[], Bshape=[2, 3]),                                                                 # first dyad real, second complex; B zero dyads
    dict(Au=[G((1, 0), (2, 0)), G((0, 0), (1, 0))], Av=[G((1, 0), (0, 0), (-1, 0)), G((2, 0), (1, 0), (1, 0))],
         Bu=[], Bv=[], Bshape=[-1, -1]),                                                               # B empty, shape unset
    dict(Au=[G((1, 0), (2, 0)), G((0, 0), (1, 0))], Av=[G((1, 0), (0, 0), (-1, 0)), G((2, 0), (1, 0), (1, 0))],
         Bu=[G((0, 1), (1, 0))], Bv=[G((1, 0), (1, 1), (0, 0))], Bshape=[2, 3]),                        # A real, B complex
]
ALL_OPS = ["add", "sub", "iadd", "isub", "neg", "copy", "addzero", "raddzero", "subzero", "rsubzero", "pos", "T", "conj", "real", "imag", "lmul", "rmul", "matmul", "rmatmul",
           "matvec", "vecmat", "contract_dense", "contract_sparse", "contract_batch", "trace", "diag", "elem", "slice",
           "fancy", "zrows", "zcols"]


def consts(depth, record, ops=ALL_OPS, inits=INITS):
    return dict(Inits=inits, Ops=set(ops), Depth=depth, Record=record)


def emit(depth, simulate=None, seed=0, ops=ALL_OPS, inits=INITS, on_batch=None):
    """on_batch(behaviours) is called for every 3000 behaviours while TLC is still running"""
    name, mod, cfg = tlc.mc("DyadAlg", consts(depth, True, ops, inits), invariants=["Emit"])
    sink = par.Batcher("BEH", 3000, on_batch) if on_batch else None
    r = tlc.run(name, cfg, extra_modules={name: mod}, workers=1, simulate=simulate,
                depth=depth + 4 if simulate else None, seed=seed, timeout=9000, sink=sink)
    if sink is not None:
        sink.flush()
    return r


# ------------------------------------------------------------------------------------------------
def vec(g):
    a = np.array([complex(x, y) for x, y in g])
    return a if np.any(a.imag != 0) else a.real.copy()


def dense_m(r, c, cx):
    M = np.array([[complex(i - j + 1, ((i + j) % 2) if cx else 0) for j in range(1, c + 1)] for i in range(1, r + 1)])
    return M if cx else M.real.copy()


def dense_v(n, cx):
    v = np.array([complex(2 - i, (i % 2) if cx else 0) for i in range(1, n + 1)])
    return v if cx else v.real.copy()


def scalar(c):
    return complex(c[0], c[1]) if c[1] != 0 else float(c[0])


def rowsel(kind, n):
    return {"all": slice(None), "first": slice(0, 1), "tail": slice(1, None), "rev": slice(None, None, -1)}[kind]


class Hang(Exception):
    pass


def _alarm(signum, frame):
    raise Hang("operation did not terminate within 5 s")


def find_init(first):
    """the Init entry carries the dense A and B; find which configuration produced it"""
    for cfg in INITS:
        A = sum(np.outer(vec(u), vec(v)) for u, v in zip(cfg["Au"], cfg["Av"]))
        if first["B"]["r"] != cfg["Bshape"][0]:
            continue
        if not same_dense(first["A"], A):
            continue
        if cfg["Bshape"][0] > 0:
            Bd = sum([np.outer(vec(u), vec(v)) for u, v in zip(cfg["Bu"], cfg["Bv"])], np.zeros((2, 3)))
            if not same_dense(first["B"], Bd):
                continue
        return cfg
    raise KeyError("initial configuration not found")


def same_dense(exp, got):
    d = np.array([[complex(a, b) for a, b in row] for row in exp["d"]]).reshape(max(exp["r"], 0), max(exp["c"], 0))
    got = np.asarray(got)
    return got.shape == d.shape and np.array_equal(got, d)


def check_carrier(name, exp, X):
    """compare a DyadCarrier with the expected abstract carrier"""
    import pymoto as pym
    if not isinstance(X, pym.DyadCarrier):
        return "%s is a %s, not a DyadCarrier" % (name, type(X).__name__)
    D = X.todense()
    if exp["r"] < 0:
        if D.size != 0:
            return "%s should be the empty carrier but todense() has shape %s" % (name, D.shape)
        return None
    if X.shape[0] < 0 and X.shape[1] < 0 and X.n_dyads == 0 and not any(a or b for row in exp["d"] for a, b in row):
        return "STOP"   # a carrier whose shape is still unset stands for the zero matrix of any shape; the
                        # rest of the behaviour is not comparable (the specification gave it a shape)
    if tuple(X.shape) != (exp["r"], exp["c"]):
        return "%s has shape %s, expected %s" % (name, X.shape, (exp["r"], exp["c"]))
    if not same_dense(exp, D):
        return "%s.todense() = %s, expected %s" % (name, D.tolist(), exp["d"])
    if exp["cplx"] != bool(np.iscomplexobj(D)) and exp["cplx"] != bool(X.iscomplex()):
        if exp["cplx"] and not any(b for row in exp["d"] for a, b in row):
            return "ZERODYADS %s is real-valued and reports complex=%s, the dense computation is complex-typed" % (name, X.iscomplex())
        return "%s complex=%s, expected %s" % (name, X.iscomplex(), exp["cplx"])
    return None


def check_out(exp, got):
    if exp["kind"] == "none":
        return None
    if exp["kind"] == "scal":
        e = complex(*exp["d"])
        try:
            g = complex(got)
        except TypeError:
            return "returned a %s, expected the scalar %s" % (type(got).__name__, e)
        if g != e:
            return "returned %s, expected %s" % (got, e)
        if np.iscomplexobj(got) and not exp["cplx"]:
            return "returned a complex scalar %s for real operands" % (got,)
        return None
    e = np.array([complex(a, b) for a, b in exp["d"]])
    g = np.asarray(got)
    if g.shape != e.shape or not np.array_equal(g, e):
        return "returned %s, expected %s" % (g.tolist(), e.tolist())
    if bool(np.iscomplexobj(g)) != exp["cplx"]:
        return "returned array complex=%s, expected %s" % (np.iscomplexobj(g), exp["cplx"])
    return None


def apply(op, args, S):
    """S: dict slot -> DyadCarrier. returns value returned by the operation (or None)"""
    x = args[0]
    X = S[x]
    if op in ("add", "sub", "iadd", "isub"):
        Y = S[args[1]]
        if op == "add":
            S["R"] = X + Y
        elif op == "sub":
            S["R"] = X - Y
        elif op == "iadd":
            X += Y
            S[x] = X
        else:
            X -= Y
            S[x] = X
        return None
    if op == "neg":
        S["R"] = -X
    elif op == "copy":
        S["R"] = X.copy()
    elif op == "addzero":
        S["R"] = X + 0
    elif op == "raddzero":
        S["R"] = 0 + X
    elif op == "subzero":
        S["R"] = X - 0
    elif op == "rsubzero":
        S["R"] = 0 - X
    elif op == "pos":
        S["R"] = +X
    elif op == "T":
        S["R"] = X.T
    elif op == "conj":
        S["R"] = X.conj()
    elif op == "real":
        S["R"] = X.real
    elif op == "imag":
        S["R"] = X.imag
    elif op == "lmul":
        S["R"] = scalar(args[1]) * X
    elif op == "rmul":
        S["R"] = X * scalar(args[1])
    elif op == "matmul":
        S["R"] = X @ dense_m(X.shape[1], 2, args[1])
    elif op == "rmatmul":
        S["R"] = dense_m(2, X.shape[0], args[1]) @ X
    elif op == "matvec":
        return X @ dense_v(X.shape[1], args[1])
    elif op == "vecmat":
        return dense_v(X.shape[0], args[1]) @ X
    elif op == "contract_dense":
        return X.contract(dense_m(X.shape[0], X.shape[1], args[1]))
    elif op == "contract_sparse":
        return X.contract_multi([sps.coo_matrix(dense_m(X.shape[0], X.shape[1], False))])[0]
    elif op == "contract_batch":
        M = np.stack([dense_m(2, 2, args[1]), dense_m(2, 2, args[1])])
        rows = np.array([[0, 1], [1, 0]])
        return X.contract(M, rows, rows)
    elif op == "trace":
        return X.contract()
    elif op == "diag":
        return X.diagonal(args[1])
    elif op == "elem":
        return X[args[1] - 1, args[2] - 1]
    elif op == "slice":
        S["R"] = X[rowsel(args[1], X.shape[0]), rowsel(args[2], X.shape[1])]
    elif op == "fancy":
        return X[np.array([0, 1]), np.array([1, 0])]
    elif op == "zrows":
        X[args[1] - 1:args[1], :] = 0
    elif op == "zcols":
        X[:, args[1] - 1:args[1]] = 0
    else:
        raise KeyError(op)
    return None


def replay(beh):
    import pymoto as pym
    steps = beh["steps"]
    cfg = find_init(steps[0])
    S = {"A": pym.DyadCarrier([vec(u) for u in cfg["Au"]], [vec(v) for v in cfg["Av"]]),
         "B": (pym.DyadCarrier([vec(u) for u in cfg["Bu"]], [vec(v) for v in cfg["Bv"]], shape=tuple(cfg["Bshape"]))
               if cfg["Bshape"][0] > 0 else pym.DyadCarrier()),
         "R": pym.DyadCarrier()}
    for i, stp in enumerate(steps):
        got = None
        if i > 0:
            signal.signal(signal.SIGVTALRM, _alarm)     # CPU time of this process, so machine load cannot fake a hang
            signal.setitimer(signal.ITIMER_VIRTUAL, 5)
            try:
                got = apply(stp["op"], stp["args"], S)
            except Hang as e:
                return i, "hang/" + stp["op"], "%s%s: %s" % (stp["op"], stp["args"], e)
            except Exception as e:
                return i, "raise/" + stp["op"], "%s%s raised %s: %s" % (stp["op"], stp["args"], type(e).__name__, str(e)[:160])
            finally:
                signal.setitimer(signal.ITIMER_VIRTUAL, 0)
        for s in ("A", "B", "R"):
            msg = check_carrier(s, stp[s], S[s])
            if msg == "STOP":
                return None
            if msg and msg.startswith("ZERODYADS"):
                return i, "KNOWN-zero-dyads", msg
            if msg:
                kind = "operand" if (i > 0 and s != "R" and not (stp["op"] in ("iadd", "isub", "zrows", "zcols") and stp["args"][0] == s)) else "value"
                return i, "%s/%s" % (kind, stp["op"]), "after %s%s: %s" % (stp["op"], stp["args"], msg)
        if i > 0:
            msg = check_out(stp["out"], got)
            if msg:
                return i, "out/" + stp["op"], "%s%s %s" % (stp["op"], stp["args"], msg)
    return None


def _replay_chunk(behs):
    out, hangs = [], 0
    for b in behs:
        if hangs >= 2:      # non-termination already established (each costs the 5 s alarm): stop this chunk
            out.append("SKIPPED")
            continue
        r = replay(b)
        if r is not None and r[1].startswith("hang/"):
            hangs += 1
        out.append(r)
    return out


def check_behaviours(chk, behs):
    for part_b, part in zip(par.chunks(behs, 28), par.pmap(_replay_chunk, par.chunks(behs, 28))):
        for b, res in zip(part_b, part):
            if res == "SKIPPED":
                continue
            key = {"init": [b["steps"][0]["A"]["d"], b["steps"][0]["B"]["r"], b["steps"][0]["B"].get("d")],
                   "ops": [[s["op"], s["args"]] for s in b["steps"][1:]]}
            chk.case(key)
            if res is not None:
                i, kind, what = res
                if kind == "KNOWN-zero-dyads":
                    chk.violation("C15/dtype/zero-dyads", what, dict(key, step=i))
                    continue
                chk.violation("C15/" + kind, what, dict(key, steps=b["steps"][:i + 1]))


def run(chk, replay=None):
    if replay is not None:
        res = replay_fn({"steps": replay["steps"]})
        chk.case(replay)
        if res is not None:
            chk.violation("C15/" + res[1], res[2], replay)
        return
    thorough = chk.tier == "thorough"
    chk.extra["rule"] = ("a case is (initial carriers, operation sequence) emitted by TLC from DyadAlg.tla with the expected dense "
                         "matrix / shape / complex-ness of all three slots and the returned value after every operation")
    chk.assumptions += ["operands are small Gaussian integers, so floating-point results must be exactly equal",
                        "complex-ness is required to agree with either todense() or iscomplex()"]
    d = 3 if thorough else 2
    name, mod, cfg = tlc.mc("DyadAlg", consts(d, False), invariants=["ShapeClosure", "TypeSound"], properties=["Frame"],
                            constraint="DepthBound")
    chk.tlc_must_hold(name, cfg, label="DyadAlg exhaustive depth %d" % d, extra_modules={name: mod})
    # emission runs are taken a few at a time and their results dropped as soon as they are replayed (memory stays bounded)
    plan = []
    for k in range(len(INITS)):
        plan.append((2, None, 0, ALL_OPS, [INITS[k]]))
        if thorough:
            # every sequence of three operations over about half of the operations (the full set is ~150 branches per step)
            plan.append((3, None, 0, ["add", "iadd", "isub", "neg", "copy", "addzero", "T", "conj", "lmul", "matmul", "matvec", "contract_dense",
                                      "contract_batch", "trace", "fancy", "zrows", "zcols"], [INITS[k]]))
    # focused deeper enumeration: the observers (contractions, products, trace) interleaved with the in-place mutators
    # (row / column zeroing, +=) - anything an observer remembers must be forgotten when the carrier changes
    FOCUS = ["contract_batch", "contract_dense", "contract_sparse", "trace", "matvec", "vecmat", "zrows", "zcols", "iadd"]
    for k in range(len(INITS)):
        plan.append((3, None, 0, FOCUS if thorough or k < 2 else FOCUS[:2] + FOCUS[3:4] + FOCUS[6:8], [INITS[k]]))
    nsim = 2000 if thorough else 300
    for j in range(12 if thorough else 5):
        plan.append((8, nsim, chk.seed * 7 + j))
    width = 5
    for k in range(0, len(plan), width):
        with cf.ThreadPoolExecutor(max_workers=width) as ex:
            futs = [ex.submit(emit, *args, on_batch=lambda b: check_behaviours(chk, b)) for args in plan[k:k + width]]
            for j in cf.as_completed(futs):
                r = j.result()
                chk.transitions += r.generated
                chk.tlc_runs.append({"module": "DyadAlg", "label": "emit", "generated": r.generated, "wall_s": round(r.wall, 2)})
            del futs

replay_fn = replay
