"""C08 - Finite-element assembly equals the scaled element sum and keeps its physics.

[S] FE.tla / FECases.tla: C08asm (operational triplet construction with boundary-condition removal and
    appended diagonal = declarative scatter of x_e K_e through the connectivity, for non-symmetric integer
    element matrices, ndof 1..3, several constrained-dof sets, on the zero, every unit and a ramp scaling
    vector - complete since the map is affine), ElemOK (stiffness symmetric, annihilates all rigid-body
    modes exactly, u'Ku = V stress.strain >= 0 for affine fields; mass sums to rho*V per direction; Poisson
    annihilates constants and reproduces the energy of a linear field) in exact rationals.
[R] assembled matrices are compared exactly with AssembleGeneral (csc and csr, with add_constant); the
    element matrices with AssembleStiffness / AssembleMass / AssemblePoisson (rtol 1e-12).
[O] on larger meshes: symmetry, positive semi-definiteness, rigid-body null space, total mass, constants.
"""
import numpy as np
import scipy.sparse as sps

import fecases
from fecases import q
from vf import tlc


def dom_of(g, sz=(1.0, 1.0, 1.0)):
    import pymoto as pym
    return pym.DomainDefinition(g["nx"], g["ny"], g["nz"], unitx=sz[0], unity=sz[1], unitz=sz[2])


def check_asm(c):
    import pymoto as pym
    dom = dom_of(c["g"])
    Ke = np.array(c["Ke"], dtype=float)
    n = c["ndof"] * dom.nnodes
    A0 = np.array(c["A0"], dtype=float)
    cols = [np.array(m, dtype=float) for m in c["cols"]]
    bc = sorted(c["bc"])
    rng = np.random.default_rng(n)
    Cm = sps.csc_matrix(rng.integers(-2, 3, (n, n)) * (rng.random((n, n)) < 0.15)).astype(float)
    # how the constrained dofs are given: sorted array with explicit diagonal value, reversed python list, default diagonal value
    bcforms = [("array", lambda: np.array(bc), float(c["dv"])), ("list-reversed", lambda: list(reversed(bc)), float(c["dv"])),
               ("default-diagonal", lambda: np.array(bc), None)] + (
        [("integer-diagonal", lambda: np.array(bc), int(float(c["dv"])))] if float(c["dv"]) == int(float(c["dv"])) else []) if bc else [("none", None, None)]
    for mt, (bcname, bcval, dv) in [(a, b) for a in (sps.csc_matrix, sps.csr_matrix) for b in bcforms]:
        for const in (None, Cm):
            kw = dict(matrix_type=mt)
            if bc:
                kw.update(bc=bcval())
                if dv is not None:
                    kw.update(bcdiagval=dv)
            if const is not None:
                kw["add_constant"] = const
            s = pym.Signal("x", np.zeros(dom.nel))
            m = pym.AssembleGeneral(s, domain=dom, element_matrix=Ke, **kw)
            add = const.toarray() if const is not None else 0.0
            if bc and dv is None:      # documented default: the largest entry of the element matrix on the constrained diagonal
                dfix = np.zeros((n, n))
                dfix[bc, bc] = float(np.max(Ke)) - float(c["dv"])
                add = add + dfix
            exp0 = A0 if bc else A0  # without bc the specification's A0 is the zero matrix

            def get():
                A = m.response().sig_out[0].state
                if not sps.issparse(A):
                    return None
                return A.toarray()
            A = get()
            if A is None or not np.array_equal(A, exp0 + add):
                return "zero-scaling", "grid %s ndof %d bc %s (%s) %s: A(x=0) differs from the specification" % (c["g"], c["ndof"], bc, bcname, mt.__name__)
            for e in range(dom.nel):
                x = np.zeros(dom.nel)
                x[e] = 1.0
                s.state = x
                A = get()
                if not np.array_equal(A, cols[e] + add):
                    bad = np.argwhere(A != cols[e] + add)[0]
                    return "unit-scaling", "grid %s ndof %d bc %s %s: A(e_%d)[%d,%d] = %s, specification %s" % (
                        c["g"], c["ndof"], bc, mt.__name__, e, bad[0], bad[1], A[bad[0], bad[1]], (cols[e] + add)[bad[0], bad[1]])
            x = rng.integers(0, 9, dom.nel) / 4.0          # dyadic fractions: every product with the integer element matrix is exact
            s.state = x
            A = get()
            exp = A0 + sum(x[e] * (cols[e] - A0) for e in range(dom.nel)) + add
            if not np.array_equal(A, exp):
                return "affine", "grid %s ndof %d bc %s: A(x) is not A0 + sum x_e (A_e - A0)" % (c["g"], c["ndof"], bc)
            if not np.array_equal(s.state, x):
                return "input-changed", "response() changed the scaling vector"
            # the same affine map with other admissible number types: a complex scaling vector (dyadic real and imaginary parts)
            # and an integer-typed element matrix with a fractional scaling vector -- the result type follows the products
            xi = rng.integers(-4, 5, dom.nel) / 4.0
            lin = lambda xv: sum(xv[e] * (cols[e] - A0) for e in range(dom.nel))
            for tname, mk, xv in (("complex-x", lambda: m, x + 1j * xi),
                                  ("integer-element-matrix", lambda: pym.AssembleGeneral(s, domain=dom, element_matrix=Ke.astype(int), **kw), x)):
                if tname == "integer-element-matrix" and (not np.array_equal(Ke, Ke.astype(int)) or (bc and dv is None)):
                    continue
                mm = mk()
                s.state = xv
                At = mm.response().sig_out[0].state
                At = At.toarray() if sps.issparse(At) else None
                if At is None or not np.array_equal(At, A0 + lin(xv) + add):
                    return "affine/" + tname, "grid %s ndof %d bc %s (%s) %s: A(x) is not A0 + sum x_e (A_e - A0) for %s" % (c["g"], c["ndof"], bc, bcname, mt.__name__, tname)
    return None


def qm(M):
    return np.array([[q(v) for v in row] for row in M])


def check_elem(c):
    import pymoto as pym
    dim = c["dim"]
    sz = [q(v) for v in c["sz"]]
    dom = pym.DomainDefinition(1, 1, 1 if dim == 3 else 0, unitx=sz[0], unity=sz[1], unitz=sz[2])
    x = pym.Signal("x", np.ones(1))
    E, nu = q(c["E"]), q(c["nu"])
    K = qm(c["K"])
    m = pym.AssembleStiffness(x, domain=dom, e_modulus=E, poisson_ratio=nu, plane=c["mode"] if dim == 2 else "strain")
    got = m.stiffness_element
    if got.shape != K.shape or not np.allclose(got, K, rtol=1e-12, atol=1e-13 * np.abs(K).max()):
        return "stiffness", "dim %d size %s %s E=%s nu=%s: element stiffness differs from exact integration (max err %.3g)" % (
            dim, sz, c["mode"], E, nu, np.max(np.abs(got - K)) if got.shape == K.shape else float("nan"))
    A = m.response().sig_out[0].state.toarray()
    if not np.allclose(A, K, rtol=1e-12, atol=1e-13 * np.abs(K).max()):   # one element: assembled = element (identity connectivity up to order)
        dc = dom.get_dofconnectivity(dim)[0]
        if not np.allclose(A[np.ix_(dc, dc)], K, rtol=1e-12, atol=1e-13 * np.abs(K).max()):
            return "stiffness-assembled", "single-element assembled stiffness differs from the element matrix"
    for nd, key in ((1, "M1"), (dim, "Md")):
        M = qm(c[key])
        mm = pym.AssembleMass(x, domain=dom, material_property=3.0, ndof=nd)
        if mm.el_mat.shape != M.shape or not np.allclose(mm.el_mat, M, rtol=1e-12, atol=1e-14):
            return "mass", "dim %d size %s ndof %d: element mass matrix differs (max err %.3g)" % (dim, sz, nd, np.max(np.abs(mm.el_mat - M)))
    P = qm(c["P"])
    mp = pym.AssemblePoisson(x, domain=dom, material_property=1.5)
    if mp.poisson_element.shape != P.shape or not np.allclose(mp.poisson_element, P, rtol=1e-12, atol=1e-14):
        return "poisson", "dim %d size %s: element Poisson matrix differs (max err %.3g)" % (dim, sz, np.max(np.abs(mp.poisson_element - P)))
    return None


def observations(chk, seed, n):
    """[O] physics of assembled matrices on larger meshes, numerically"""
    import pymoto as pym
    rng = np.random.default_rng(seed)
    for _ in range(n):
        dim = int(rng.choice([2, 3]))
        g = [int(rng.integers(1, 5)), int(rng.integers(1, 4)), int(rng.integers(1, 3)) if dim == 3 else 0]
        sz = [float(rng.choice([0.5, 1.0, 1.5])) for _ in range(3)]
        dom = pym.DomainDefinition(*g, unitx=sz[0], unity=sz[1], unitz=sz[2])
        x = rng.random(dom.nel)
        x[rng.random(dom.nel) < 0.2] = 0.0
        s = pym.Signal("x", x)
        case = {"grid": g, "size": sz, "x": x.tolist()}
        chk.count()
        K = pym.AssembleStiffness(s, domain=dom, e_modulus=float(rng.choice([1.0, 2.5])), poisson_ratio=float(rng.choice([0.0, 0.3])),
                                  plane=str(rng.choice(["strain", "stress"]))).response().sig_out[0].state.toarray()
        scale = max(1.0, np.abs(K).max())
        if not np.allclose(K, K.T, atol=1e-12 * scale):
            chk.violation("C08/obs/symmetry", "assembled stiffness is not symmetric", case)
        if np.linalg.eigvalsh((K + K.T) / 2).min() < -1e-10 * scale:
            chk.violation("C08/obs/psd", "assembled stiffness has a negative eigenvalue", case)
        pos = dom.get_node_position()          # (dim, nnodes)
        modes = []
        for i in range(dim):
            u = np.zeros((dom.nnodes, dim))
            u[:, i] = 1.0
            modes.append(u.ravel())
        for i in range(dim):
            for j in range(i + 1, dim):
                u = np.zeros((dom.nnodes, dim))
                u[:, i] = -pos[j]
                u[:, j] = pos[i]
                modes.append(u.ravel())
        for u in modes:
            if np.abs(K @ u).max() > 1e-10 * scale * max(1.0, np.abs(u).max()):
                chk.violation("C08/obs/rigid", "assembled stiffness does not annihilate a rigid-body motion", case)
                break
        rho = 2.0
        M = pym.AssembleMass(s, domain=dom, material_property=rho, ndof=dim).response().sig_out[0].state.toarray()
        vol = sz[0] * sz[1] * sz[2]
        for i in range(dim):
            e = np.zeros((dom.nnodes, dim))
            e[:, i] = 1.0
            e = e.ravel()
            if abs(e @ M @ e - rho * vol * x.sum()) > 1e-10 * max(1.0, rho * vol * x.sum()):
                chk.violation("C08/obs/mass", "total mass per direction is not rho*V*sum(x)", case)
                break
        P = pym.AssemblePoisson(s, domain=dom, material_property=1.5).response().sig_out[0].state.toarray()
        if np.abs(P @ np.ones(dom.nnodes)).max() > 1e-11 * max(1.0, np.abs(P).max()):
            chk.violation("C08/obs/poisson-const", "Poisson matrix does not annihilate constants", case)
        gvec = rng.random(dim) - 0.5
        u = gvec @ pos
        if abs(u @ P @ u - 1.5 * vol * (gvec @ gvec) * x.sum()) > 1e-10 * max(1.0, abs(u @ P @ u)):
            chk.violation("C08/obs/poisson-energy", "Poisson matrix does not reproduce the energy of a linear field", case)


def run(chk, replay=None):
    if replay is not None:
        res = check_asm(replay) if "A0" in replay else check_elem(replay)
        chk.case({k: replay[k] for k in replay if k in ("g", "ndof", "bc", "dim", "sz", "mode", "E", "nu")})
        if res:
            chk.violation("C08/" + res[0], res[1], replay)
        return
    thorough = chk.tier == "thorough"
    chk.extra["rule"] = ("assembly cases (grid, dofs per node, constrained-dof set; matrices for the zero and every unit scaling vector) and "
                         "element cases (dimension, rational element sizes, material, plane mode; exact element matrices) printed by TLC")
    chk.assumptions += ["[O] positive semi-definiteness and the physics of assembled matrices on larger meshes are evaluated numerically"]
    for variant in ("rows_cols_swapped", "bc_rows_only"):
        r = fecases.refute(variant, fecases.asm_cases(False)[1:2])
        if r.violated is None:
            raise tlc.TLCError("negative variant %s of FE.tla was not refuted" % variant)
    cases = fecases.emit_all(chk, thorough)
    for c in cases["ASM"]:
        try:
            res = check_asm(c)
        except Exception as e:
            res = ("raise", "grid %s ndof %s bc %s raised %s: %s" % (c["g"], c["ndof"], c["bc"], type(e).__name__, str(e)[:150]))
        chk.case({"g": c["g"], "ndof": c["ndof"], "bc": c["bc"]})
        if res:
            chk.violation("C08/asm/" + res[0], res[1], c)
    for c in cases["ELEM"]:
        try:
            res = check_elem(c)
        except Exception as e:
            res = ("raise", "element case raised %s: %s" % (type(e).__name__, str(e)[:150]))
        chk.case({k: c[k] for k in ("dim", "sz", "mode", "E", "nu")})
        if res:
            chk.violation("C08/elem/" + res[0], res[1], c)
    observations(chk, chk.seed + 4, 200 if thorough else 40)
