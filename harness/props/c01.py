"""C01 - Every module's sensitivity is the exact adjoint of its response.

The adjoint identity  Re sum(g*v) = d/dv Re sum(w*y)  is decided per module family:

[S]+[R] exact values from the specifications
  * LinSolve / Inverse: Solvers.tla (LinSolveAdjointOK, InverseAdjointOK) proves the identity for dA = -lambda x',
    db = lambda, dA = -B'WB' in exact Gaussian-integer arithmetic; TLC prints x, lambda and the Inverse adjoint
    scaled by det and the modules' sensitivities are compared with them (dense / sparse, real / complex,
    single and two right-hand sides).
  * OverhangFilter at the rational parameter point: Overhang.tla defines the exact Jacobian by forward-mode
    differentiation of the layer sweep; the module's sensitivity for unit and random seeds must be J'w.
  * EigenSolve on exact symmetric pencils: Eigen.tla gives the directional derivatives of eigenvalues and
    B-normalised eigenvectors by first-order perturbation theory (DerivOK checks them against the defining
    equations); the module's sensitivities are contracted with the direction and compared.
[R+] (multi-)affine modules (filters with every padding mode, assembly with dense and dyadic seeds, element
    operators, EinSum, ConcatSignal, complex parts, Scaling): the directional derivative along every unit
    direction is the exact difference y(x + e_j) - y(x) of the real module, whose forward map is bound to the
    specifications by C08 / C09 / C12; the identity is checked for full, single-output (partial) and unit seeds.
[O] SystemOfEquations, StaticCondensation (every partition from Solvers.tla), ComplexNorm, PNorm(p=1,2) with
    active set and frozen scaling, Scaling constraints: directional derivative by Richardson-extrapolated
    central differences of the real module.
Not decided: EigenSolve for complex / non-symmetric matrices, KSFunction, SoftMinMax, PNorm for general p,
OverhangFilter at general parameters, MathGeneral, AutoMod (see DESIGN.md).
"""
import concurrent.futures as cf
import warnings

import numpy as np
import scipy.sparse as sps

import modtable
from props import c05, c11, c14
from vf import par, tlc


def dense(x):
    import pymoto as pym
    if x is None:
        return None
    if isinstance(x, pym.DyadCarrier):
        return None if x.n_dyads == 0 else np.asarray(x.todense())
    if sps.issparse(x):
        return x.toarray()
    return np.asarray(x)


def inner(w, y):
    """Re sum(w*y), None counts as zero"""
    if w is None or y is None:
        return 0.0
    return float(np.real(np.sum(np.asarray(w) * np.asarray(y))))


# ------------------------------------------------------------------------------------------------
# [R+] affine modules: exact difference quotients
AFFINE = ("FilterConv", "DensityFilter", "AssembleGeneral", "AssembleStiffness", "AssembleMass", "AssemblePoisson", "ElementOperation",
          "Strain", "Stress", "ElementAverage", "NodalOperation", "ThermoMechanical", "EinSum", "ConcatSignal", "MakeComplex",
          "RealPart", "ImagPart")
SMOOTH = ("ComplexNorm", "PNorm", "KSFunction", "SoftMinMax", "Scaling", "Inverse", "LinSolve", "SystemOfEquations", "StaticCondensation",
          "OverhangFilter", "EigenSolve")


def seeds_for(outs, rng, mode, kind="dense"):
    import pymoto as pym
    W = []
    for k, o in enumerate(outs):
        st = o.state
        if sps.issparse(st):
            shape, cplx = st.shape, np.iscomplexobj(st.data)
        else:
            a = np.asarray(st)
            shape, cplx = a.shape, np.iscomplexobj(a)
        if mode.startswith("only") and int(mode[4:]) != k:
            W.append(None)
            continue
        if kind == "dyad" and len(shape) == 2:
            def vec(n):
                v = rng.integers(-2, 3, n).astype(float)
                return v + 1j * rng.integers(-2, 3, n) if cplx else v
            W.append(pym.DyadCarrier([vec(shape[0]), vec(shape[0])], [vec(shape[1]), vec(shape[1])]))
            continue
        if mode == "unit":
            w = np.zeros(shape, dtype=complex if cplx else float)
            if w.size:
                w.flat[int(rng.integers(0, w.size))] = 1.0 + (1j if cplx else 0)
        else:
            w = rng.integers(-3, 4, shape).astype(float)
            if cplx:
                w = w + 1j * rng.integers(-3, 4, shape)
        if shape == ():
            w = complex(w) if cplx else float(w)
        W.append(w)
    return W


def perturbed(entry, k, j, step):
    """fresh module with input k perturbed by `step` in flat entry j; returns dense outputs"""
    m, ins, outs = entry.make()
    st = ins[k].state
    if sps.issparse(st):
        d = st.toarray().astype(np.result_type(st.dtype, type(step)))
        d.flat[j] += step
        ins[k].state = type(st)(d)
    elif np.ndim(st) == 0:
        ins[k].state = st + step
    else:
        d = np.array(st, dtype=np.result_type(np.asarray(st).dtype, type(step)))
        d.flat[j] += step
        ins[k].state = d
    m.response()
    return [dense(o.state) for o in outs]


def check_entry_affine(idx_seed):
    idx, seed = idx_seed
    entry = modtable.entries(seed)[idx]
    rng = np.random.default_rng(idx * 131 + seed)
    out = []
    with warnings.catch_warnings():
        warnings.simplefilter("ignore")
        try:
            m0, ins0, outs0 = entry.make()
            m0.response()
            y0 = [dense(o.state) for o in outs0]
            # exact directional derivatives along every unit direction (real, and imaginary for complex inputs)
            D = []
            for k, s in enumerate(ins0):
                st = s.state
                size = st.shape[0] * st.shape[1] if sps.issparse(st) else int(np.size(st))
                cplx = np.iscomplexobj(st.data if sps.issparse(st) else st)
                for j in range(size):
                    for step in ((1.0, 1j) if cplx else (1.0,)):
                        y1 = perturbed(entry, k, j, step)
                        D.append((k, j, step, [None if a is None else a - b for a, b in zip(y1, y0)]))
            nout = len(outs0)
            modes = ["all", "unit"] + (["only%d" % k for k in range(nout)] if nout > 1 else [])
            kinds = ["dense"] + (["dyad"] if "matrix_out" in entry.tags else [])
            for mode in modes:
                for kind in kinds:
                    m, ins, outs = entry.make()
                    m.response()
                    W = seeds_for(outs, rng, mode, kind)
                    for o, w in zip(outs, W):
                        o.sensitivity = w
                    try:
                        m.sensitivity()
                    except Exception as e:
                        out.append(("raise", "%s [%s, %s seeds]: sensitivity() raised %s: %s" % (entry.name, mode, kind, type(e).__name__, str(e)[:120])))
                        continue
                    G = [dense(s.sensitivity) for s in ins]
                    Wd = [dense(w) for w in W]
                    for k, j, step, dy in D:
                        phi = sum(inner(w, d) for w, d in zip(Wd, dy))
                        gk = G[k]
                        gj = 0.0 if gk is None else complex(np.asarray(gk).flat[j] if np.ndim(gk) else gk)
                        got = (gj * step).real           # Re(g * v) for v = step * e_j
                        if abs(got - phi) > 1e-9 * max(1.0, abs(phi)):
                            out.append(("adjoint", "%s [%s, %s seeds]: input %d entry %d direction %s: Re(g v) = %.12g, exact directional derivative %.12g"
                                        % (entry.name, mode, kind, k, j, step, got, phi)))
                            break
        except Exception as e:
            out.append(("raise", "%s: %s: %s" % (entry.name, type(e).__name__, str(e)[:160])))
    return entry.name, out


# ------------------------------------------------------------------------------------------------
# [O] smooth modules: Richardson-extrapolated central differences
def richardson(f, h=1e-3):
    def cd(hh):
        a, b = f(hh), f(-hh)
        return [(None if x is None else (x - y) / (2 * hh)) for x, y in zip(a, b)]
    d1, d2 = cd(h), cd(h / 2)
    return [None if x is None else (4 * y - x) / 3 for x, y in zip(d1, d2)]


def check_entry_smooth(idx_seed):
    idx, seed = idx_seed
    entry = modtable.entries(seed)[idx]
    rng = np.random.default_rng(idx * 17 + seed)
    out = []
    with warnings.catch_warnings():
        warnings.simplefilter("ignore")
        try:
            m0, ins0, outs0 = entry.make()
            m0.response()
            nout = len(outs0)
            modes = ["all"] + (["only%d" % k for k in range(nout)] if nout > 1 else [])
            for mode in modes:
                m, ins, outs = entry.make()
                m.response()
                W = seeds_for(outs, rng, mode)
                for o, w in zip(outs, W):
                    o.sensitivity = w
                m.sensitivity()
                G = [dense(s.sensitivity) for s in ins]
                for trial in range(3):
                    # a random direction that keeps the inputs in their class (symmetric for symmetric matrices)
                    V = []
                    for s in ins:
                        st = dense(s.state)
                        v = rng.random(st.shape) - 0.5
                        if np.iscomplexobj(st):
                            v = v + 1j * (rng.random(st.shape) - 0.5)
                        if st.ndim == 2 and st.shape[0] == st.shape[1] and np.allclose(st, st.T):
                            v = v + v.T
                        elif st.ndim == 2 and st.shape[0] == st.shape[1] and np.allclose(st, st.conj().T):
                            v = v + v.conj().T          # stay Hermitian
                        if st.ndim == 2 and sps.issparse(s.state):
                            v = v * (st != 0)
                        V.append(v)

                    def f(h):
                        mm, ii, oo = entry.make()
                        mm.response()      # documented memories (Scaling's normalisation by its first value) are fixed at the base point
                        if getattr(mm, "scaling", None) is not None and hasattr(mm, "sf"):
                            mm.scaling = (lambda xx, fx, s0=mm.sf: s0)      # aggregation scaling is frozen in the adjoint (the property's quantifier)
                        for s, s0, v in zip(ii, ins, V):
                            st = s0.state
                            if sps.issparse(st):
                                s.state = type(st)(st.toarray() + h * v)
                            elif np.ndim(st) == 0:
                                s.state = st + h * (complex(v) if np.iscomplexobj(v) else float(v))
                            else:
                                s.state = np.asarray(st) + h * v
                        mm.response()
                        return [dense(o.state) for o in oo]
                    steep = entry.name.startswith("OverhangFilter")     # p = 40: strong curvature, smaller step and wider tolerance
                    dY = richardson(f, 2e-4 if steep else 1e-3)
                    phi = sum(inner(dense(w), d) for w, d in zip(W, dY))
                    got = sum(inner(g, v) for g, v in zip(G, V))
                    if abs(got - phi) > (2e-5 if steep else 2e-7) * max(1.0, abs(phi), abs(got)):
                        out.append(("adjoint-obs", "%s [%s]: Re sum(g v) = %.10g, numerical directional derivative %.10g" % (entry.name, mode, got, phi)))
                        break
        except Exception as e:
            out.append(("raise", "%s: %s: %s" % (entry.name, type(e).__name__, str(e)[:160])))
    return entry.name, out


# ------------------------------------------------------------------------------------------------
# [S]+[R] LinSolve / Inverse with exact values from Solvers.tla
def cm(M):
    return np.array([[complex(a, b) for a, b in row] for row in M])


def cv(v):
    return np.array([complex(a, b) for a, b in v])


def check_adj_case(c):
    import pymoto as pym
    A = cm(c["A"])
    cplxA = c["cls"]["cplx"]
    Ar = A if cplxA else A.real.copy()
    det = complex(*c["det"])
    res = []
    cases = sorted(c["cases"], key=lambda k: k["cx"])
    with warnings.catch_warnings():
        warnings.simplefilter("ignore")
        sols = {}
        for k in cases:
            b, w = cv(k["b"]), cv(k["w"])
            x, lam = cv(k["xnum"]) / det, cv(k["lamnum"]) / det
            sols[k["cx"]] = (b, w, x, lam)
            breal = not k["cx"]
            for sparse in (False, True):
                if sparse and not cplxA and k["cx"]:
                    continue            # complex right-hand side for a real sparse matrix: outside LinSolve's documented inputs
                M = sps.csc_matrix(Ar) if sparse else Ar
                bb = b.real.copy() if breal else b
                ww = w.real.copy() if breal else w
                sA, sb = pym.Signal("A", M), pym.Signal("b", bb)
                try:
                    m = pym.LinSolve([sA, sb])
                    m.response()
                    m.sig_out[0].sensitivity = ww
                    m.sensitivity()
                except Exception as e:
                    return "linsolve/raise", "LinSolve(%s, complex=%s) raised %s: %s (A = %s)" % ("sparse" if sparse else "dense", k["cx"], type(e).__name__, str(e)[:100], A.tolist())
                dA, db = dense(sA.sensitivity), dense(sb.sensitivity)
                eA = -np.outer(lam, x)
                eb = lam
                if not cplxA:
                    eA = eA.real
                if breal:
                    eb = eb.real
                if dA is None or not np.allclose(dA, eA, rtol=1e-9, atol=1e-10) or (not cplxA and np.iscomplexobj(dA) and np.abs(dA.imag).max() > 0):
                    return "linsolve/dA", "LinSolve(%s, complex=%s): dA differs from -lambda x' (A = %s)" % ("sparse" if sparse else "dense", k["cx"], A.tolist())
                if db is None or not np.allclose(db, eb, rtol=1e-9, atol=1e-10):
                    return "linsolve/db", "LinSolve(%s, complex=%s): db differs from lambda (A = %s)" % ("sparse" if sparse else "dense", k["cx"], A.tolist())
            # Inverse
            W = cm(k["W"])
            Wr = W if k["cx"] else W.real.copy()
            sA = pym.Signal("A", Ar)
            try:
                mi = pym.Inverse(sA)
                mi.response()
                mi.sig_out[0].sensitivity = Wr
                mi.sensitivity()
            except Exception as e:
                return "inverse/raise", "Inverse raised %s: %s" % (type(e).__name__, str(e)[:100])
            eA = -cm(k["dAinvnum"]) / det ** 2
            if not cplxA:
                eA = eA.real
            if not np.allclose(dense(sA.sensitivity), eA, rtol=1e-9, atol=1e-10):
                return "inverse/dA", "Inverse (complex seed=%s): dA differs from -B'WB' (A = %s)" % (k["cx"], A.tolist())
        # two right-hand sides at once (dense; complex block)
        if len(sols) == 2:
            (b1, w1, x1, l1), (b2, w2, x2, l2) = sols[False], sols[True]
            B2, W2 = np.stack([b1, b2], axis=1), np.stack([w1, w2], axis=1)
            for sparse in ((False, True) if cplxA else (False,)):
                M = sps.csc_matrix(Ar) if sparse else Ar
                sA, sb = pym.Signal("A", M), pym.Signal("b", B2)
                try:
                    m = pym.LinSolve([sA, sb])
                    m.response()
                    m.sig_out[0].sensitivity = W2
                    m.sensitivity()
                except Exception as e:
                    return "linsolve/raise", "LinSolve(2 rhs, %s) raised %s: %s (A = %s)" % ("sparse" if sparse else "dense", type(e).__name__, str(e)[:100], A.tolist())
                eA = -(np.outer(l1, x1) + np.outer(l2, x2))
                if not cplxA:
                    eA = eA.real
                if not np.allclose(dense(sA.sensitivity), eA, rtol=1e-9, atol=1e-10):
                    return "linsolve/dA-multirhs", "LinSolve(2 rhs, %s): dA differs from -sum lambda_k x_k' (A = %s)" % ("sparse" if sparse else "dense", A.tolist())
                if not np.allclose(dense(sb.sensitivity), np.stack([l1, l2], axis=1), rtol=1e-9, atol=1e-10):
                    return "linsolve/db-multirhs", "LinSolve(2 rhs): db differs from lambda"
    return None


def _chunk_adj(cases):
    out = []
    for c in cases:
        try:
            out.append(check_adj_case(c))
        except Exception as e:
            out.append(("raise/harness", "%s: %s" % (type(e).__name__, str(e)[:200])))
    return out


# ------------------------------------------------------------------------------------------------
# [S]+[R] OverhangFilter at the rational parameter point
def q(v):
    return v[0] / v[1]


def check_overhang_case(c):
    import pymoto as pym
    g = c["grid"]
    dom = pym.DomainDefinition(g[0], g[1], g[2])
    x = np.array([q(v) for v in c["x"]])
    ns = c["ns"]
    rng = np.random.default_rng(len(c["x"]) + ns)
    for axis, sign, jac in c["jac"]:
        J = np.array([[q(v) for v in col] for col in jac]).T      # J[e, j] = dy_e / dx_j
        d = [0.0, 0.0, 0.0]
        d[axis - 1] = float(sign)
        seeds = [np.eye(dom.nel)[i] for i in range(dom.nel)] + [rng.integers(-3, 4, dom.nel).astype(float)]
        for w in seeds:
            s = pym.Signal("x", x.copy())
            try:
                m = pym.OverhangFilter(s, domain=dom, direction=d, xi_0=1.0 / ns, p=2.0, eps=0.0, nsampling=ns)
                m.response()
                m.sig_out[0].sensitivity = w.copy()
                m.sensitivity()
            except Exception as e:
                return "overhang/raise", "grid %s direction %s raised %s: %s" % (g, d, type(e).__name__, str(e)[:100])
            gx = s.sensitivity
            exp = J.T @ w
            if gx is None or not np.allclose(gx, exp, rtol=1e-9, atol=1e-9):
                kind = "overhang/single-layer" if [g[0], g[1], max(g[2], 1)][axis - 1] == 1 else "overhang/adjoint"
                return kind, "grid %s direction %s ns=%d x=%s: sensitivity %s, exact J'w = %s" % (g, d, ns, x.tolist(), None if gx is None else gx.tolist(), exp.tolist())
    return None


def _chunk_oh(cases):
    out = []
    for c in cases:
        try:
            out.append(check_overhang_case(c))
        except Exception as e:
            out.append(("raise/harness", "%s: %s" % (type(e).__name__, str(e)[:200])))
    return out


def emit_overhang(grids, nsamp, simulate=None, seed=0):
    name, mod, cfg = tlc.mc("Overhang", c14.consts(grids, nsamp), invariants=["EmitJac"])
    return tlc.run(name, cfg, extra_modules={name: mod}, workers=1, simulate=simulate, depth=40 if simulate else None, seed=seed, timeout=3000)


# ------------------------------------------------------------------------------------------------
# [S]+[R] EigenSolve on exact pencils
def qm(M):
    return np.array([[q(v) for v in row] for row in M])


def check_eigen_case(c):
    import pymoto as pym
    A, B = qm(c["A"]), qm(c["B"])
    n = A.shape[0]
    rng = np.random.default_rng(n + int(abs(A).sum()))
    nm = len(c["lam"])
    with warnings.catch_warnings():
        warnings.simplefilter("ignore")
        configs = []
        if c["nmodes"] == 0:
            configs.append(("dense-generalized", [A, B], {}))
            if c["std"]:
                configs.append(("dense-standard", [A], {}))
        else:
            configs.append(("sparse-generalized", [sps.csc_matrix(A), sps.csc_matrix(B)], dict(nmodes=c["nmodes"], sigma=q(c["sigma"]))))
        for label, mats, kw in configs:
            for seedkind in ("values", "vectors", "both", "partial-vector"):
                wl = rng.integers(-3, 4, nm).astype(float) if seedkind in ("values", "both") else None
                WQ = rng.integers(-3, 4, (n, nm)).astype(float) if seedkind in ("vectors", "both", "partial-vector") else None
                if seedkind == "partial-vector":
                    WQ[:, 1:] = 0.0
                sigs = [pym.Signal("M%d" % i, M) for i, M in enumerate(mats)]
                try:
                    m = pym.EigenSolve(sigs, **kw)
                    m.response()
                    m.sig_out[0].sensitivity = wl
                    m.sig_out[1].sensitivity = WQ
                    m.sensitivity()
                except Exception as e:
                    return ("eigen/raise/" + label.split("-")[0] + ("-vectors" if WQ is not None else "-values"),
                            "%s with %s seeds raised %s: %s" % (label, seedkind, type(e).__name__, str(e)[:100]))
                gA = dense(sigs[0].sensitivity)
                gB = dense(sigs[1].sensitivity) if len(sigs) > 1 else None
                for d in c["der"]:
                    dA, dB = np.array(d["dA"], dtype=float), np.array(d["dB"], dtype=float)
                    if len(sigs) == 1 and np.any(dB != 0):
                        continue
                    dlam = np.array([q(v) for v in d["dlam"]])
                    dQ = np.array([[q(v) for v in vec] for vec in d["dQ"]]).T
                    phi = (0.0 if wl is None else float(wl @ dlam)) + (0.0 if WQ is None else float(np.sum(WQ * dQ)))
                    got = inner(gA, dA) + inner(gB, dB)
                    if abs(got - phi) > 1e-7 * max(1.0, abs(phi)):
                        return ("eigen/adjoint/" + label.split("-")[0] + ("-vectors" if WQ is not None else "-values"),
                                "%s with %s seeds: sum(gA dA) + sum(gB dB) = %.10g, exact derivative %.10g" % (label, seedkind, got, phi))
    return None


# ------------------------------------------------------------------------------------------------
def run(chk, replay=None):
    thorough = chk.tier == "thorough"
    chk.extra["rule"] = ("a case is a module configuration with a seed pattern (all outputs, one output, unit seed; dense or dyadic seeds) checked "
                         "against every unit direction, or a specification case (matrix / density field / pencil) with TLC's exact adjoint data")
    chk.assumptions += ["affine modules: the exact difference y(x+e_j)-y(x) of the real module is the directional derivative; their forward maps are "
                        "bound to the specifications by C08, C09, C12", "[O] smooth modules: Richardson-extrapolated central differences, tolerance 2e-7",
                        "not decided: complex / non-symmetric EigenSolve, KSFunction, SoftMinMax, general-p PNorm, general-parameter OverhangFilter, "
                        "MathGeneral (sympy absent), AutoMod (jax absent)"]
    ents = modtable.entries(chk.seed)
    aff = [(i, chk.seed) for i, e in enumerate(ents) if e.name.startswith(AFFINE)]
    smo = [(i, chk.seed) for i, e in enumerate(ents) if e.name.startswith(SMOOTH)]
    for name, res in par.pmap(check_entry_affine, aff):
        chk.case({"module": name, "check": "affine exact difference"})
        for kind, what in res:
            chk.violation("C01/%s/%s" % (name.split("/")[0], kind), what, {"module": name})
    for name, res in par.pmap(check_entry_smooth, smo):
        chk.case({"module": name, "check": "numerical directional derivative"})
        for kind, what in res:
            chk.violation("C01/%s/%s" % (name.split("/")[0], kind), what, {"module": name})
    # LinSolve / Inverse exact
    kinds = ["2x2real", "curated", "3x3hermindef"] + (["2x2cx12", "3x3sym4", "3x3herm"] if thorough else ["2x2cx6", "3x3sym3"])
    for k in kinds:
        name, mod, cfg = tlc.mc("Solvers", dict(Mats=tlc.Raw(c05.mats_expr(k)), Variant="faithful"),
                                invariants=["LinSolveAdjointOK", "InverseAdjointOK"], extra_defs=c05.EXTRA)
        chk.tlc_must_hold(name, cfg, label="Solvers adjoint identities " + k, extra_modules={name: mod})

    def emit_adj(k):
        name, mod, cfg = tlc.mc("Solvers", dict(Mats=tlc.Raw(c05.mats_expr(k)), Variant="faithful"), invariants=["EmitAdj"], extra_defs=c05.EXTRA)
        return tlc.run(name, cfg, extra_modules={name: mod}, workers=1, timeout=3000)
    with cf.ThreadPoolExecutor(max_workers=6) as ex:
        for r in ex.map(emit_adj, kinds):
            chk.transitions += r.generated
            cases = [v[0] for tag, v in r.printed if tag == "ADJ"]
            if not thorough and len(cases) > 150:
                cases = cases[::max(1, len(cases) // 150)]
            for part_c, part in zip(par.chunks(cases, 28), par.pmap(_chunk_adj, par.chunks(cases, 28))):
                for c, res in zip(part_c, part):
                    chk.case({"A": c["A"], "check": "LinSolve/Inverse exact adjoint"})
                    if res:
                        chk.violation("C01/" + res[0], res[1], {"A": c["A"]})
    # OverhangFilter exact Jacobian
    oh = [([[3, 2, 0], [2, 3, 0], [3, 1, 0], [1, 3, 0]], (5,), None), ([[2, 2, 1], [1, 2, 2]], (5, 9), None),
          ([[3, 3, 0], [4, 3, 0]], (5,), 200 if thorough else 60), ([[2, 2, 2], [3, 2, 2]], (5, 9), 120 if thorough else 30)]
    with cf.ThreadPoolExecutor(max_workers=6) as ex:
        futs = [ex.submit(emit_overhang, g, ns, sim, chk.seed + 3) for g, ns, sim in oh]
        for fu in futs:
            r = fu.result()
            chk.transitions += r.generated
            cases = [v[0] for tag, v in r.printed if tag == "JAC"]
            if not thorough and len(cases) > 400:
                cases = cases[::max(1, len(cases) // 400)]
            for part_c, part in zip(par.chunks(cases, 28), par.pmap(_chunk_oh, par.chunks(cases, 28))):
                for c, res in zip(part_c, part):
                    chk.case({"grid": c["grid"], "ns": c["ns"], "x": c["x"], "check": "OverhangFilter exact Jacobian"}, nontrivial=len(c["jac"]) > 0)
                    if res:
                        chk.violation("C01/" + res[0], res[1], {"grid": c["grid"], "ns": c["ns"], "x": c["x"]})
    # EigenSolve exact derivatives
    ecs = c11.cases(thorough)
    name, mod, cfg = c11.model(ecs, False, der=True)
    r = chk.tlc_must_hold(name, cfg, label="Eigen DerivOK + derivatives", extra_modules={name: mod}, workers=1)
    for tag, v in r.printed:
        if tag != "EIGD":
            continue
        c = v[0]
        try:
            res = check_eigen_case(c)
        except Exception as e:
            res = ("raise/harness", "%s: %s" % (type(e).__name__, str(e)[:200]))
        chk.case({"A": c["A"], "nmodes": c["nmodes"], "check": "EigenSolve exact derivatives"})
        if res:
            chk.violation("C01/" + res[0], res[1], {"A": c["A"], "B": c["B"], "nmodes": c["nmodes"], "sigma": c["sigma"]})
