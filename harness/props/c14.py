"""C14 - The overhang filter prints layer by layer in the requested direction.

[S] Overhang.tla: direction table (strings in both orders / cases, sign) and the exact layer sweep at the
    rational parameter point p=2, xi_0=1/nsampling, eps=0 (smax = sum of squares, smin = min). TLC checks
    base layer unchanged, y <= x, supported solid stays solid, unsupported material removed, and
    equivariance under mirror and x/y swap, for all directions, all fields over {0,1/2,1} on small grids.
[R] every case is replayed on OverhangFilter with vector and string directions (direction attribute and
    filtered field compared with TLC's exact values).
[O] at default parameters (p=40, eps=1e-4): y <= x + sqrt(eps)/2, solid-stays-solid, removal, and
    equivariance are evaluated numerically on seeded random fields.
"""
import concurrent.futures as cf

import numpy as np

from vf import par, tlc

LEVELS = [(0, 1), (1, 2), (1, 1)]


def consts(grids, nsamp=(5,), variant="faithful"):
    return dict(Grids={tuple(g) for g in grids}, Levels={tuple(l) for l in LEVELS}, NSamp=set(nsamp), Variant=variant)


def q(v):
    return v[0] / v[1]


def run_cases(grids, nsamp, simulate=None, seed=0):
    name, mod, cfg = tlc.mc("Overhang", consts(grids, nsamp), invariants=["C14", "Emit"])
    return tlc.run(name, cfg, extra_modules={name: mod}, workers=1, simulate=simulate, depth=40 if simulate else None, seed=seed, timeout=3000)


def check_only(chk, grids, nsamp):
    name, mod, cfg = tlc.mc("Overhang", consts(grids, nsamp), invariants=["C14"])
    return chk.tlc_must_hold(name, cfg, label="Overhang C14 %s ns=%s" % (grids, list(nsamp)), extra_modules={name: mod})


def dir_forms(axis, sign, dim):
    """every way of asking for this direction"""
    v = [0.0] * dim
    v[axis - 1] = float(sign)
    v3 = [0.0, 0.0, 0.0]
    v3[axis - 1] = 2.5 * sign
    letter = "xyz"[axis - 1]
    sg = "+" if sign > 0 else "-"
    forms = [v, np.array(v3), sg + letter, letter + sg, sg + letter.upper()]
    if sign > 0:
        forms.append(letter)
    return forms


def check_case(c):
    import pymoto as pym
    g = c["grid"]
    dom = pym.DomainDefinition(g[0], g[1], g[2])
    x = np.array([q(v) for v in c["x"]])
    ns = c["ns"]
    for axis, sign, yexp in c["y"]:
        ye = np.array([q(v) for v in yexp])
        dexp = np.zeros(3)
        dexp[axis - 1] = sign
        for form in dir_forms(axis, sign, dom.dim):
            s = pym.Signal("x", x.copy())
            try:
                m = pym.OverhangFilter(s, domain=dom, direction=form, xi_0=1.0 / ns, p=2.0, eps=0.0, nsampling=ns)
                m.response()
            except Exception as e:
                return "raise", "direction %r on grid %s raised %s: %s" % (form, g, type(e).__name__, str(e)[:150])
            if not np.array_equal(m.direction, dexp):
                return "direction", "direction %r parsed as %s, specification axis %d sign %d" % (form, m.direction.tolist(), axis, sign)
            y = m.sig_out[0].state
            if y.shape != ye.shape or not np.allclose(y, ye, rtol=0, atol=1e-12):
                return "sweep", "grid %s direction %r ns=%d: filtered field %s, specification %s (x = %s)" % (g, form, ns, y.tolist(), ye.tolist(), x.tolist())
            if not np.array_equal(s.state, x):
                return "input-changed", "response() changed the input field"
    return None


def _chunk(cases):
    out = []
    for c in cases:
        try:
            out.append(check_case(c))
        except Exception as e:
            out.append(("raise", "%s: %s" % (type(e).__name__, str(e)[:200])))
    return out


def check_dir_table(chk, table):
    import pymoto as pym
    dom3 = pym.DomainDefinition(2, 2, 2)
    dom2 = pym.DomainDefinition(2, 2)
    for chars, axis, sign in table:
        s = "".join(chars)
        for dom in ((dom2, dom3) if axis < 3 else (dom3,)):
            exp = np.zeros(3)
            exp[axis - 1] = sign
            chk.case({"direction": s, "dim": dom.dim})
            try:
                m = pym.OverhangFilter(pym.Signal("x", np.ones(dom.nel)), domain=dom, direction=s)
            except Exception as e:
                chk.violation("C14/direction/raise", "direction %r raised %s: %s" % (s, type(e).__name__, str(e)[:100]), {"direction": s})
                continue
            if not np.array_equal(m.direction, exp):
                chk.violation("C14/direction", "direction %r parsed as %s, specification axis %d sign %d" % (s, m.direction.tolist(), axis, sign),
                              {"direction": s, "dim": dom.dim})


def observations(chk, seed, n):
    """[O] default parameters: bounds and equivariance, numerically"""
    import pymoto as pym
    rng = np.random.default_rng(seed)
    for _ in range(n):
        dim = int(rng.choice([2, 3]))
        g = [int(rng.integers(1, 5)), int(rng.integers(1, 5)), int(rng.integers(1, 4)) if dim == 3 else 0]
        dom = pym.DomainDefinition(*g)
        x = rng.random(dom.nel)
        x[rng.random(dom.nel) < 0.3] = 1.0
        x[rng.random(dom.nel) < 0.2] = 0.0
        axis = int(rng.integers(0, dim))
        sign = int(rng.choice([-1, 1]))
        ns = 3 if dim == 2 else int(rng.choice([5, 9]))
        d = [0.0] * 3
        d[axis] = sign
        eps = 1e-4

        def filt(dom_, x_, d_):
            return pym.OverhangFilter(pym.Signal("x", x_.copy()), domain=dom_, direction=d_, nsampling=ns).response().sig_out[0].state
        case = {"grid": g, "x": x.tolist(), "direction": d, "ns": ns}
        chk.count()
        try:
            y = filt(dom, x, d)
            for a in range(dim):   # every call made below, tried first so that a raise is reported as such
                filt(dom, x, d)
        except Exception as e:
            chk.violation("C14/obs/raise", "OverhangFilter raised %s: %s" % (type(e).__name__, str(e)[:120]), case)
            continue
        if np.any(y > x + np.sqrt(eps) / 2 + 1e-12):
            chk.violation("C14/obs/overshoot", "an element exceeds its input by more than sqrt(eps)/2", case)
        X = x.reshape((max(g[2], 1), g[1], g[0])).transpose(2, 1, 0)     # X[i,j,k]
        Y = y.reshape((max(g[2], 1), g[1], g[0])).transpose(2, 1, 0)
        size = X.shape[axis]
        base = 0 if sign > 0 else size - 1
        if not np.allclose(np.take(Y, base, axis=axis), np.take(X, base, axis=axis), atol=1e-14):
            chk.violation("C14/obs/base", "the base layer was changed", case)
        # equivariance under mirroring every axis
        for a in range(dim):
            Xm = np.flip(X, axis=a)
            dm = list(d)
            if a == axis:
                dm[axis] = -sign
            try:
                ym = filt(dom, Xm.transpose(2, 1, 0).ravel(), dm)
            except Exception as e:
                chk.violation("C14/obs/raise", "OverhangFilter raised %s: %s" % (type(e).__name__, str(e)[:120]), case)
                continue
            Ym = ym.reshape((max(g[2], 1), g[1], g[0])).transpose(2, 1, 0)
            if not np.allclose(Ym, np.flip(Y, axis=a), atol=1e-11):
                chk.violation("C14/obs/mirror", "mirroring axis %d does not commute with the filter" % a, case)
        # solid stays solid / unsupported removed, layer by layer
        for l in range(size):
            if l == base:
                continue
            prev = np.take(Y, l - sign, axis=axis)
            cur, curx = np.take(Y, l, axis=axis), np.take(X, l, axis=axis)
            if np.all(prev <= 1e-9) and np.any(cur > np.sqrt(eps) / 2 + 1e-9):
                chk.violation("C14/obs/unsupported", "material above an empty layer was not removed", case)
            if np.all(prev >= 1 - 1e-9) and np.any((curx >= 1 - 1e-12) & (cur < 0.99)):
                chk.violation("C14/obs/solid", "fully supported solid did not stay solid", case)


def run(chk, replay=None):
    if replay is not None:
        res = check_case(replay) if "y" in replay else None
        chk.case(replay)
        if res:
            chk.violation("C14/" + res[0], res[1], replay)
        return
    thorough = chk.tier == "thorough"
    chk.extra["rule"] = ("one case per (grid, nsampling, density field over {0,1/2,1}); TLC prints the exact filtered field for every "
                         "print direction; each is replayed with every vector/string form of the direction")
    chk.assumptions += ["parameter point p=2, xi_0=1/nsampling, eps=0 is admissible and makes smax/smin exact (absolute tolerance 1e-12 "
                        "covers the 1e-152 shifts)", "[O] default parameters: bounds evaluated numerically"]
    # direction table
    name, mod, cfg = tlc.mc("Overhang", consts([[2, 2, 0]]), invariants=["EmitDirs"], extra_defs="DirOK == DirTableOK")
    cfg += "INVARIANT DirOK\n"
    r = chk.tlc_must_hold(name, cfg, label="direction table", extra_modules={name: mod}, workers=1)
    tables = [v[0] for tag, v in r.printed if tag == "DIRS"]
    check_dir_table(chk, tables[0])
    name, mod, cfg = tlc.mc("Overhang", consts([[2, 2, 0]], variant="sign_ignored"), invariants=["DirOK"], extra_defs="DirOK == DirTableOK")
    r = tlc.run(name, cfg, extra_modules={name: mod}, expect_violation=True)
    if r.violated is None:
        raise tlc.TLCError("negative variant sign_ignored of Overhang.tla was not refuted")
    # sweep
    if thorough:
        exhaustive = [([[3, 3, 0]], (5,)), ([[3, 2, 0], [2, 3, 0], [1, 3, 0], [3, 1, 0], [2, 2, 0], [4, 2, 0]], (5,)), ([[2, 2, 2]], (5, 9)), ([[2, 1, 2], [1, 2, 2]], (5, 9))]
        sims = [([[4, 4, 0]], (5,), 400), ([[3, 3, 2], [2, 3, 3]], (5, 9), 300)]
    else:
        exhaustive = [([[3, 2, 0], [2, 3, 0], [1, 3, 0], [3, 1, 0], [2, 2, 0]], (5,)), ([[2, 2, 1], [1, 2, 2]], (5, 9))]
        sims = [([[3, 3, 0], [4, 3, 0]], (5,), 150), ([[2, 2, 2], [3, 2, 2]], (5, 9), 60)]
    for grids, ns in ([([[3, 3, 0]], (5,)), ([[2, 2, 2]], (5, 9))] if not thorough else
                      [([[3, 3, 0], [4, 2, 0], [2, 4, 0]], (5,)), ([[2, 2, 2], [3, 2, 1], [2, 1, 3], [3, 1, 2]], (5, 9))]):
        check_only(chk, grids, ns)      # [S] only: all fields on the next larger grids, all workers
    jobs = []
    with cf.ThreadPoolExecutor(max_workers=10) as ex:
        for grids, ns in exhaustive:
            jobs.append(ex.submit(run_cases, grids, ns))
        for k, (grids, ns, n) in enumerate(sims):
            jobs.append(ex.submit(run_cases, grids, ns, n, chk.seed * 13 + k))
        for j in cf.as_completed(jobs):
            r = j.result()
            if r.violated is not None:
                raise tlc.TLCError("Overhang.tla violates %s\n%s" % (r.violated, r.stdout[-2000:]))
            chk.states += r.distinct
            chk.transitions += r.generated
            chk.tlc_runs.append({"module": "Overhang", "label": "C14 + cases", "distinct": r.distinct, "generated": r.generated, "wall_s": round(r.wall, 2)})
            cases = [v[0] for tag, v in r.printed if tag == "CASE"]
            for part_c, part in zip(par.chunks(cases, 28), par.pmap(_chunk, par.chunks(cases, 28))):
                for c, res in zip(part_c, part):
                    chk.case({"grid": c["grid"], "ns": c["ns"], "x": c["x"]}, nontrivial=len(set(map(tuple, c["x"]))) > 1)
                    if res:
                        chk.violation("C14/" + res[0], res[1], c)
    observations(chk, chk.seed + 9, 600 if thorough else 120)
