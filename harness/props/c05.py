"""C05 - Every linear solver solves the requested (transposed/adjoint) system.

[S] Solvers.tla: on every enumerated Gaussian-integer matrix (all 2x2 over a small entry set, structured and
    curated 3x3 families) TLC checks op(A) adj(op(A)) = det I for op in {N,T,H}, the transposition identities
    the solvers rely on, and that the solver chosen by the transcribed decision tree of auto_determine_solver
    is admissible for the matrix's class; a negative variant (Hermitian treated as general) is refuted.
[R] for every non-singular matrix TLC prints class, admissible solvers, the auto-determined solver and
    adjugate/determinant per mode; every admissible solver class (diagonal, QR, LU, Cholesky incl. fall-back,
    LDL, sparse LU, CG with none/Jacobi/SOR/ILU, and auto_determine_solver dense and sparse) must return
    adj b / det for right-hand sides of shapes (n), (n,1), (n,3) with dependent columns, real and complex.
[S]+[R] SolverLife.tla: one solver object is updated repeatedly with different admissible matrices; every solve must
    read a factor of the matrix given last, of a kind valid for it (Cholesky success flag / LDL back-up, detected LDL
    kind); stale-flag variants are refuted; every behaviour to a depth bound is replayed on every solver configuration.
[O] CG with GeometricMultigrid and with an initial guess on FE matrices: residual of the requested system.
"""
import concurrent.futures as cf
import warnings

import numpy as np
import scipy.sparse as sps

from vf import par, tlc

RE4 = [(-1, 0), (0, 0), (1, 0), (2, 0)]
CX6 = [(0, 0), (1, 0), (0, 1), (1, 1), (-1, 0), (2, -1)]
CX12 = [(a, b) for a in (-1, 0, 1, 2) for b in (-1, 0, 1)]

EXTRA = '''
MatsOf(n, Ent) == {Tup([i \\in 1..n |-> Tup([j \\in 1..n |-> f[<<i, j>>]])]) : f \\in [(1..n) \\X (1..n) -> Ent]}
SymOf(Ent) == {Tup([i \\in 1..3 |-> Tup([j \\in 1..3 |-> f[<<IF i < j THEN i ELSE j, IF i < j THEN j ELSE i>>]])]) :
                 f \\in [{<<1, 1>>, <<1, 2>>, <<1, 3>>, <<2, 2>>, <<2, 3>>, <<3, 3>>} -> Ent]}
HermOf(EntD, EntO) == {Tup([i \\in 1..3 |-> Tup([j \\in 1..3 |-> IF i = j THEN d[i] ELSE IF i < j THEN o[<<i, j>>] ELSE GConj(o[<<j, i>>])])]) :
                 d \\in [1..3 -> EntD], o \\in [{<<1, 2>>, <<1, 3>>, <<2, 3>>} -> EntO]}
'''
CURATED3 = [
    [[(0, 0), (1, 0), (0, 0)], [(1, 0), (0, 0), (0, 0)], [(0, 0), (0, 0), (1, 0)]],          # needs pivoting; LDL 2x2 block
    [[(0, 0), (2, 0), (1, 0)], [(2, 0), (0, 0), (-1, 0)], [(1, 0), (-1, 0), (0, 0)]],        # zero diagonal, symmetric indefinite
    [[(1, 0), (0, 0), (0, 0)], [(2, 0), (3, 0), (0, 0)], [(-1, 0), (1, 0), (2, 0)]],         # lower triangular
    [[(2, 0), (1, 0), (-1, 0)], [(0, 0), (1, 0), (3, 0)], [(0, 0), (0, 0), (-2, 0)]],        # upper triangular
    [[(0, 0), (0, 0), (2, 0)], [(0, 0), (3, 0), (1, 0)], [(1, 0), (1, 0), (1, 0)]],          # permuted triangular
    [[(2, 0), (0, 1), (0, 0)], [(0, -1), (2, 0), (1, 1)], [(0, 0), (1, -1), (3, 0)]],        # Hermitian positive definite
    [[(1, 1), (2, 0), (0, 1)], [(2, 0), (0, 1), (1, 0)], [(0, 1), (1, 0), (2, -1)]],         # complex symmetric
    [[(1, 0), (2, 1), (0, 0)], [(0, -1), (1, 0), (3, 0)], [(2, 0), (0, 0), (1, 1)]],         # complex general
    [[(3, 0), (0, 0), (0, 0)], [(0, 0), (-2, 0), (0, 0)], [(0, 0), (0, 0), (1, 0)]],         # diagonal real
    [[(1, 1), (0, 0), (0, 0)], [(0, 0), (2, 0), (0, 0)], [(0, 0), (0, 0), (0, -1)]],         # diagonal complex
]


def g(m):
    return tuple(tuple(tuple(e) for e in row) for row in m)


def mats_expr(kind):
    ent = lambda E: "{" + ", ".join("<<%d, %d>>" % e for e in E) + "}"
    if kind == "2x2real":
        return "MatsOf(2, %s)" % ent(RE4)
    if kind == "2x2cx6":
        return "MatsOf(2, %s)" % ent(CX6)
    if kind == "2x2cx12":
        return "MatsOf(2, %s)" % ent(CX12)
    if kind == "3x3sym3":
        return "SymOf(%s)" % ent([(0, 0), (1, 0), (2, 0)])
    if kind == "3x3sym4":
        return "SymOf(%s)" % ent(RE4)
    if kind == "3x3herm":
        return "HermOf(%s, %s)" % (ent([(1, 0), (2, 0), (3, 0)]), ent([(0, 0), (1, 0), (0, 1), (1, -1)]))
    if kind == "3x3hermindef":
        return "HermOf(%s, %s)" % (ent([(-1, 0), (0, 0), (2, 0)]), ent([(1, 0), (0, 1), (1, -1)]))
    if kind == "3x3bin":
        return "MatsOf(3, %s)" % ent([(0, 0), (1, 0)])
    if kind == "curated":
        return tlc.tla({g(m) for m in CURATED3})
    raise KeyError(kind)


def model(kind, variant="faithful", emit=False):
    invs = ["Emit"] if emit else ["AdjCorrect", "Group", "AutoAdmissible"]
    name, mod, cfg = tlc.mc("Solvers", dict(Mats=tlc.Raw(mats_expr(kind)), Variant=variant), invariants=invs, extra_defs=EXTRA)
    return name, mod, cfg


def emit(kind):
    name, mod, cfg = model(kind, emit=True)
    return kind, tlc.run(name, cfg, extra_modules={name: mod}, workers=1, timeout=3000)


# ------------------------------------------------------------------------------------------------
def cm(M):
    return np.array([[complex(a, b) for a, b in row] for row in M])


def rhs_pool(n, cplx_ok):
    r = np.random.default_rng(n)
    b = r.integers(-3, 4, n).astype(float)
    c = r.integers(-3, 4, n).astype(float)
    c[0] += 1.0
    pool = [("vec", b), ("col", b.reshape(n, 1)), ("block3dep", np.stack([b, 2 * b, b + c], axis=1)),
            ("blockscaled", np.stack([b, 1e-7 * c], axis=1))]       # every column is its own system, whatever its magnitude
    if cplx_ok:
        pool += [("cvec", b + 1j * c), ("cblock", np.stack([b + 1j * c, c - 2j * b], axis=1))]
    return pool


def columns_close(x, xe, tol):
    """every right-hand side is its own system: relative accuracy per column"""
    X, XE = np.asarray(x).reshape(len(x), -1), np.asarray(xe).reshape(len(xe), -1)
    for j in range(XE.shape[1]):
        sc = np.abs(XE[:, j]).max()
        if np.abs(X[:, j] - XE[:, j]).max() > tol * (sc if sc > 0 else 1.0):
            return False
    return True


def solver_instances(name, A, cls, auto):
    import pymoto as pym
    S = pym.solvers
    if name == "SolverDiagonal":
        return [("SolverDiagonal", S.SolverDiagonal(), False)]
    if name == "SolverDenseQR":
        return [("SolverDenseQR", S.SolverDenseQR(), False)]
    if name == "SolverDenseLU":
        return [("SolverDenseLU", S.SolverDenseLU(), False)]
    if name == "SolverDenseCholesky":
        return [("SolverDenseCholesky", S.SolverDenseCholesky(), False)]
    if name == "SolverDenseLDL":
        out = [("SolverDenseLDL(auto)", S.SolverDenseLDL(), False)]
        if cls["herm"]:
            out.append(("SolverDenseLDL(hermitian=True)", S.SolverDenseLDL(hermitian=True), False))
        if cls["sym"]:
            out.append(("SolverDenseLDL(hermitian=False)", S.SolverDenseLDL(hermitian=False), False))
        return out
    if name == "SolverSparseLU":
        return [("SolverSparseLU", S.SolverSparseLU(), True)]
    if name == "CG":
        return [("CG", S.CG(tol=1e-11), True), ("CG+Jacobi", S.CG(preconditioner=S.DampedJacobi(), tol=1e-11), True),
                ("CG+SOR", S.CG(preconditioner=S.SOR(w=1.0), tol=1e-11), True), ("CG+ILU", S.CG(preconditioner=S.ILU(), tol=1e-11), True),
                ("CG(dense)", S.CG(tol=1e-11), False)]
    raise KeyError(name)


def check_matrix(c):
    import pymoto as pym
    A = cm(c["A"])
    cls = c["cls"]
    n = A.shape[0]
    Ar = A if cls["cplx"] else A.real.copy()
    sol = {t: (cm(c["sol"][t]["adj"]), complex(*c["sol"][t]["det"])) for t in ("N", "T", "H")}
    insts = []
    for s in sorted(c["solvers"]):
        insts += solver_instances(s, Ar, cls, c["auto"])
    # auto_determine_solver, dense and sparse
    with warnings.catch_warnings():
        warnings.simplefilter("ignore")
        for sparse in (False, True):
            M = sps.csc_matrix(Ar) if sparse else Ar
            try:
                sv = pym.solvers.auto_determine_solver(M)
            except Exception as e:
                return "auto/raise", "auto_determine_solver raised %s: %s for A = %s" % (type(e).__name__, str(e)[:100], A.tolist())
            exp = c["auto"]["sparse" if sparse else "dense"]
            if type(sv).__name__ != exp:
                return "auto/choice", "auto_determine_solver chose %s, the transcribed decision tree %s (A = %s)" % (type(sv).__name__, exp, A.tolist())
            insts.append(("auto:" + type(sv).__name__, sv, sparse))
        for label, sv, sparse in insts:
            M = sps.csc_matrix(Ar) if sparse else Ar
            try:
                sv.update(M)
            except Exception as e:
                return "raise/update", "%s.update raised %s: %s (A = %s)" % (label, type(e).__name__, str(e)[:100], A.tolist())
            iterative = label.startswith("CG")
            for trans in ("N", "T", "H"):
                adj, det = sol[trans]
                for rname, b in rhs_pool(n, cplx_ok=not (sparse and not cls["cplx"] and any(k in label for k in ("LU", "SOR")))):
                    xe = (adj @ b) / det
                    try:
                        x = sv.solve(b.copy(), trans=trans)
                    except Exception as e:
                        return "raise/solve", "%s.solve(%s, trans=%s) raised %s: %s (A = %s)" % (label, rname, trans, type(e).__name__, str(e)[:120], A.tolist())
                    x = np.asarray(x)
                    if x.shape != b.shape:
                        return "shape", "%s.solve(%s, trans=%s) returned shape %s for a right-hand side of shape %s" % (label, rname, trans, x.shape, b.shape)
                    tol = 1e-6 if iterative else 1e-9
                    if not np.all(np.isfinite(x)) or not columns_close(x, xe, tol):
                        return "solution/" + label.split("(")[0].split(":")[0], "%s.solve(%s, trans=%s): max error %.3g against the exact solution (A = %s)" % (
                            label, rname, trans, float(np.abs(x - xe).max()), A.tolist())
                    if np.iscomplexobj(x) and not (cls["cplx"] or np.iscomplexobj(b)) and np.abs(np.imag(x)).max() > 0:
                        return "dtype", "%s returned complex values for real data" % label
    return None


def _chunk(cases):
    out = []
    for c in cases:
        try:
            out.append(check_matrix(c))
        except Exception as e:
            out.append(("raise/harness", "%s: %s" % (type(e).__name__, str(e)[:200])))
    return out


def observations(chk, seed, n):
    """[O] CG + geometric multigrid (and an initial guess) on FE matrices: residual of the requested system"""
    import pymoto as pym
    rng = np.random.default_rng(seed)
    S = pym.solvers
    for k in range(n):
        dim = 2 if k % 3 else 3
        g = [int(rng.choice([2, 4, 6])), int(rng.choice([2, 4])), int(rng.choice([2])) if dim == 3 else 0]
        dom = pym.DomainDefinition(*g)
        x = 0.2 + 0.8 * rng.random(dom.nel)
        elastic = bool(rng.random() < 0.5)
        ndof = dim if elastic else 1
        fixed = np.arange(ndof * (dom.nely + 1) * (dom.nelz + 1)) if False else None
        nodes0 = dom.nodes[0, :, :].flatten()
        bc = np.sort(np.concatenate([ndof * nodes0 + d for d in range(ndof)]))
        sx = pym.Signal("x", x)
        if elastic:
            K = pym.AssembleStiffness(sx, domain=dom, bc=bc).response().sig_out[0].state
        else:
            K = pym.AssemblePoisson(sx, domain=dom, bc=bc, bcdiagval=1.0).response().sig_out[0].state
        nd = K.shape[0]
        for cplx in (False, True):
            b = rng.random((nd, 2)) - 0.5
            if cplx:
                b = b + 1j * (rng.random((nd, 2)) - 0.5)
            b[bc] = 0
            for label, pre in (("multigrid", S.GeometricMultigrid(dom)), ("multigrid-W", S.GeometricMultigrid(dom, cycle="W")), ("none", S.Preconditioner())):
                if cplx and label != "none":
                    continue   # the coarse level is a sparse LU of a real matrix: complex right-hand sides are outside its admissible inputs
                sv = S.CG(preconditioner=pre, tol=1e-9)
                chk.count()
                case = {"grid": g, "elastic": elastic, "complex_rhs": cplx, "preconditioner": label}
                try:
                    with warnings.catch_warnings():
                        warnings.simplefilter("ignore")
                        sv.update(K)
                        import scipy.sparse.linalg as spsla
                        for trans in ("N", "T", "H"):
                            M = {"N": K, "T": K.T, "H": K.conj().T}[trans]
                            bs = b * np.array([1.0, 1e-6])          # columns of very different magnitude
                            warm = np.zeros(bs.shape, dtype=bs.dtype)
                            warm[:, 0] = spsla.spsolve(sps.csc_matrix(M), bs[:, 0])     # an initial guess that already solves the first column
                            for bb, x0, what in ((b, None, "x0=None"), (b, 0.1 * (rng.random(b.shape) - 0.5), "x0=random"),
                                                 (bs, None, "scaled columns"), (bs, warm, "scaled columns, x0 solves column 0")):
                                xs = sv.solve(bb, x0=x0, trans=trans)
                                if xs.shape != bb.shape:
                                    chk.violation("C05/obs/cg-" + label, "CG(%s) trans=%s %s: shape %s" % (label, trans, what, xs.shape), case)
                                    continue
                                res = np.linalg.norm(M @ xs - bb, axis=0) / np.linalg.norm(bb, axis=0)      # per right-hand side
                                if not np.all(res < 1e-6):
                                    chk.violation("C05/obs/cg-" + label, "CG(%s) trans=%s %s: relative residual per column %s" % (label, trans, what, res.tolist()), case)
                except Exception as e:
                    chk.violation("C05/obs/raise", "CG(%s) raised %s: %s" % (label, type(e).__name__, str(e)[:150]), case)


def tiny_diagonal(chk):
    """[R+] well-conditioned Hermitian indefinite matrices whose (positive) diagonal is tiny next to the off-diagonal entries:
    blocks [[d, 1], [1, d]] (real) and [[d, i], [-i, d]] (complex), d a negative power of two, after a symmetric permutation.
    The exact solution is computed in rational arithmetic; every solver that documents this class must reproduce it. A solver
    that treats "positive diagonal" as "positive definite" and stops pivoting loses all accuracy here."""
    import pymoto as pym
    from fractions import Fraction as Fr
    S = pym.solvers
    perm = [2, 0, 3, 1]
    for e in (20, 40, 60):
        d = Fr(1, 2 ** e)
        for cplx in (False, True):
            # one block: [[d, o], [conj(o), d]] with o = 1 or i; its inverse is [[d, -o], [-conj(o), d]] / (d^2 - 1)
            o = 1j if cplx else 1.0
            blk = np.array([[float(d), o], [np.conj(o), float(d)]])
            A4 = np.zeros((4, 4), dtype=complex if cplx else float)
            A4[:2, :2] = blk
            A4[2:, 2:] = blk
            A = A4[np.ix_(perm, perm)]
            b4 = np.array([[1.0, 3.0], [-2.0, 1.0], [3.0, 0.0], [1.0, -1.0]])
            den = float(d * d - 1)
            inv_blk = np.array([[float(d), -o], [-np.conj(o), float(d)]]) / den
            Ainv4 = np.zeros_like(A4)
            Ainv4[:2, :2] = inv_blk
            Ainv4[2:, 2:] = inv_blk
            Ainv = Ainv4[np.ix_(perm, perm)]
            b = b4[perm]
            for label, make, sparse in (("SolverDenseLU", S.SolverDenseLU, False), ("SolverDenseQR", S.SolverDenseQR, False),
                                        ("SolverDenseLDL", S.SolverDenseLDL, False), ("SolverSparseLU", S.SolverSparseLU, True),
                                        ("auto(dense)", None, False), ("auto(sparse)", None, True)):
                M = sps.csc_matrix(A) if sparse else A.copy()
                case = {"tiny_diagonal": e, "complex": cplx, "solver": label}
                chk.count()
                try:
                    with warnings.catch_warnings():
                        warnings.simplefilter("ignore")
                        sv = make() if make is not None else S.auto_determine_solver(M)
                        sv.update(M)
                        for trans in ("N", "T", "H"):
                            Ai = {"N": Ainv, "T": Ainv.T, "H": Ainv.conj().T}[trans]
                            x = np.asarray(sv.solve(b.copy(), trans=trans))
                            if x.shape != b.shape or not columns_close(x, Ai @ b, 1e-9):
                                chk.violation("C05/tiny-diagonal/" + label.split("(")[0], "%s trans=%s on a Hermitian matrix with diagonal 2^-%d: max error %.3g against the exact solution"
                                              % (label, trans, e, float(np.abs(x - Ai @ b).max()) if x.shape == b.shape else float("nan")), case)
                                break
                except Exception as ex:
                    chk.violation("C05/tiny-diagonal/raise", "%s raised %s: %s" % (label, type(ex).__name__, str(ex)[:120]), case)


def multigrid_interpolation(chk, thorough):
    """growth beyond the listed clauses: the interpolation operator of GeometricMultigrid against Multigrid.tla"""
    import pymoto as pym
    grids = [dict(nx=2, ny=2, nz=0), dict(nx=4, ny=2, nz=0), dict(nx=2, ny=4, nz=0), dict(nx=2, ny=2, nz=2)] + \
            ([dict(nx=4, ny=4, nz=0), dict(nx=6, ny=2, nz=0), dict(nx=4, ny=2, nz=2)] if thorough else [])
    name, mod, cfg = tlc.mc("Multigrid", dict(MGGrids=tlc.SetOf(grids), Variant="faithful"), invariants=["PartitionOfUnity", "AffineExact", "Injection", "Emit"])
    r = chk.tlc_must_hold(name, cfg, label="Multigrid interpolation", extra_modules={name: mod}, workers=1)
    for tag, v in r.printed:
        if tag != "MG":
            continue
        g = v[0]["grid"]
        dom = pym.DomainDefinition(g["nx"], g["ny"], g["nz"])
        for ndof in (1, 2):
            n = ndof * dom.nnodes
            mg = pym.solvers.GeometricMultigrid(dom)
            mg.setup_interpolation(sps.identity(n, format="csc"))
            R = mg.R.toarray()
            nc = R.shape[1] // ndof
            exp = np.zeros((n, nc * ndof))
            for f, c, w in v[0]["entries"]:
                for d in range(ndof):
                    exp[f * ndof + d, c * ndof + d] += w[0] / w[1]
            chk.case({"multigrid": g, "ndof": ndof})
            if R.shape != exp.shape or not np.array_equal(R, exp):
                chk.violation("C05/multigrid/interpolation", "grid %s ndof %d: interpolation operator differs from the specification" % (g, ndof), {"grid": g, "ndof": ndof})


# ------------------------------------------------------------------------------------------------
# life cycle of one solver object: repeated update() with different admissible matrices (SolverLife.tla)
LIFE_CONFIGS = ["SolverDiagonal", "SolverDenseQR", "SolverDenseLU", "SolverDenseCholesky", "SolverDenseLDL(auto)",
                "SolverDenseLDL(hermitian=True)", "SolverDenseLDL(hermitian=False)", "SolverSparseLU",
                "CG", "CG+Jacobi", "CG+SOR", "CG+ILU", "CG(dense)"]
LIFE_POOLS = {
    "2x2real": [[[(2, 0), (1, 0)], [(1, 0), (2, 0)]],          # positive definite
                [[(1, 0), (2, 0)], [(2, 0), (1, 0)]],          # symmetric indefinite with positive diagonal: Cholesky falls back
                [[(2, 0), (0, 0)], [(0, 0), (3, 0)]],          # diagonal
                [[(1, 0), (2, 0)], [(0, 0), (1, 0)]],          # general (upper triangular)
                [[(3, 0), (-1, 0)], [(-1, 0), (1, 0)]]],       # positive definite
    "2x2cplx": [[[(2, 0), (0, 1)], [(0, -1), (3, 0)]],         # Hermitian positive definite, not symmetric
                [[(2, 0), (0, 1)], [(0, 1), (3, 0)]],          # complex symmetric, not Hermitian
                [[(1, 0), (0, 2)], [(0, -2), (1, 0)]],         # Hermitian indefinite
                [[(2, 0), (1, 0)], [(1, 0), (2, 0)]],          # real positive definite (Hermitian and symmetric)
                [[(1, 1), (2, 0)], [(0, 1), (1, 0)]]],         # complex general
    "3x3": [CURATED3[5], CURATED3[6], CURATED3[1], CURATED3[0], CURATED3[8],
            [[(2, 0), (-1, 0), (0, 0)], [(-1, 0), (2, 0), (-1, 0)], [(0, 0), (-1, 0), (2, 0)]]],
}


def life_model(pool, depth, variant="faithful", emit=False):
    consts = dict(Pool=tuple(g(m) for m in LIFE_POOLS[pool]), Configs=set(LIFE_CONFIGS), Depth=depth, LVariant=variant)
    return tlc.mc("SolverLife", consts, invariants=["SolvesCurrent"] + (["EmitPool", "EmitLife"] if emit else []),
                  properties=["SolveReadsCurrent"])


def life_instance(cfg):
    import pymoto as pym
    S = pym.solvers
    return {"SolverDiagonal": lambda: (S.SolverDiagonal(), False), "SolverDenseQR": lambda: (S.SolverDenseQR(), False),
            "SolverDenseLU": lambda: (S.SolverDenseLU(), False), "SolverDenseCholesky": lambda: (S.SolverDenseCholesky(), False),
            "SolverDenseLDL(auto)": lambda: (S.SolverDenseLDL(), False),
            "SolverDenseLDL(hermitian=True)": lambda: (S.SolverDenseLDL(hermitian=True), False),
            "SolverDenseLDL(hermitian=False)": lambda: (S.SolverDenseLDL(hermitian=False), False),
            "SolverSparseLU": lambda: (S.SolverSparseLU(), True), "CG": lambda: (S.CG(tol=1e-11), True),
            "CG+Jacobi": lambda: (S.CG(preconditioner=S.DampedJacobi(), tol=1e-11), True),
            "CG+SOR": lambda: (S.CG(preconditioner=S.SOR(w=1.0), tol=1e-11), True),
            "CG+ILU": lambda: (S.CG(preconditioner=S.ILU(), tol=1e-11), True),
            "CG(dense)": lambda: (S.CG(tol=1e-11), False)}[cfg]()


def replay_life(pool, beh):
    """one behaviour of SolverLife.tla on one real solver object; every solve must answer for the matrix given last"""
    cfg, steps = beh["cfg"], beh["steps"]
    sv, sparse = life_instance(cfg)
    mats = []
    for e in pool:
        A = cm(e["A"])
        mats.append(A if e["cplx"] else A.real.copy())
    with warnings.catch_warnings():
        warnings.simplefilter("ignore")
        for k, (op, i) in enumerate(steps):
            A = mats[i - 1]
            if op == "update":
                try:
                    sv.update(sps.csc_matrix(A) if sparse else A.copy())
                except Exception as e:
                    return "life/raise", "%s: update #%d (matrix %d of the pool) raised %s: %s; calls %s" % (cfg, k + 1, i, type(e).__name__, str(e)[:100], steps)
                continue
            n = A.shape[0]
            real_only = sparse and not pool[i - 1]["cplx"] and any(t in cfg for t in ("LU", "SOR"))
            for trans in ("N", "T", "H"):
                adj, det = cm(pool[i - 1]["sol"][trans]["adj"]), complex(*pool[i - 1]["sol"][trans]["det"])
                for rname, b in [q for j, q in enumerate(rhs_pool(n, cplx_ok=not real_only)) if j in (0, 2, 3, 4)]:
                    xe = (adj @ b) / det
                    try:
                        x = np.asarray(sv.solve(b.copy(), trans=trans))
                    except Exception as e:
                        return "life/raise", "%s: solve(%s, trans=%s) as call #%d raised %s: %s; calls %s" % (cfg, rname, trans, k + 1, type(e).__name__, str(e)[:100], steps)
                    tol = 1e-6 if cfg.startswith("CG") else 1e-9
                    if x.shape != b.shape or not np.all(np.isfinite(x)) or not columns_close(x, xe, tol):
                        return "life/" + cfg.split("(")[0].split("+")[0], ("%s: after the calls %s, solve(%s, trans=%s) does not solve the system of the matrix given last "
                                "(matrix %d of the pool, A = %s): max error %.3g") % (cfg, steps[:k], rname, trans, i, A.tolist(), float(np.abs(x - xe).max()) if x.shape == b.shape else float("nan"))
    return None


def _life_chunk(arg):
    pool, behs = arg
    out = []
    for b in behs:
        try:
            out.append(replay_life(pool, b))
        except Exception as e:
            out.append(("life/harness", "%s: %s" % (type(e).__name__, str(e)[:200])))
    return out


def solver_life(chk, thorough):
    depth = 5 if thorough else 4
    # the specification refutes the two ways of keeping a stale flag
    for variant, pool in (("stale_success", "2x2real"), ("sticky_kind", "2x2cplx")):
        name, mod, cfg = life_model(pool, 4, variant=variant)
        r = tlc.run(name, cfg, extra_modules={name: mod}, expect_violation=True)
        if r.violated is None:
            raise tlc.TLCError("SolverLife variant %s is not refuted" % variant)
        chk.extra.setdefault("refuted_variants", []).append("SolverLife/" + variant)

    def emit_pool(pool):
        name, mod, cfg = life_model(pool, depth, emit=True)
        return pool, tlc.run(name, cfg, extra_modules={name: mod}, workers=1, timeout=3000)
    with cf.ThreadPoolExecutor(max_workers=3) as ex:
        for pool, r in ex.map(emit_pool, list(LIFE_POOLS)):
            if r.violated is not None:
                raise tlc.TLCError("SolverLife (%s) violates %s\n%s" % (pool, r.violated, r.stdout[-2000:]))
            chk.states += r.distinct
            chk.transitions += r.generated
            chk.tlc_runs.append({"module": "SolverLife", "label": "life cycle " + pool, "generated": r.generated, "distinct": r.distinct, "wall_s": round(r.wall, 2)})
            pinfo = [v[0] for tag, v in r.printed if tag == "POOL"][0]
            behs = [v[0] for tag, v in r.printed if tag == "LIFE"]
            behs = [b for b in behs if any(s[0] == "solve" for s in b["steps"])]
            parts = par.chunks(behs, 32)
            for part_b, part in zip(parts, par.pmap(_life_chunk, [(pinfo, p) for p in parts])):
                for b, res in zip(part_b, part):
                    chk.case({"pool": pool, "life": b}, nontrivial=sum(1 for s in b["steps"] if s[0] == "update") > 1)
                    if res:
                        chk.violation("C05/" + res[0], res[1], {"life": b, "pool": pool, "pinfo": pinfo})


def run(chk, replay=None):
    if replay is not None and "tiny_diagonal" in replay:
        tiny_diagonal(chk)
        return
    if replay is not None and "life" in replay:
        res = replay_life(replay["pinfo"], replay["life"])
        chk.case({"life": replay["life"]})
        if res:
            chk.violation("C05/" + res[0], res[1], replay)
        return
    if replay is not None and "multigrid" not in str(replay):
        res = check_matrix(replay)
        chk.case({"A": replay["A"]})
        if res:
            chk.violation("C05/" + res[0], res[1], replay)
        return
    thorough = chk.tier == "thorough"
    chk.extra["rule"] = ("one case per non-singular Gaussian-integer matrix; TLC prints class flags, admissible solvers, the auto-determined "
                         "solver and adjugate/determinant per mode; each admissible solver is run for 3 modes x 3-5 right-hand sides")
    chk.assumptions += ["a complex right-hand side for a real *sparse* matrix is outside the admissible inputs of the SuperLU-based components (SolverSparseLU and the SOR / ILU preconditioners); LinSolve documents this limitation",
                        "optional back-ends (Pardiso, CHOLMOD, CVXOPT) are not installed", "behaviour as the condition number grows is not decided",
                        "[O] CG with geometric multigrid / initial guess: residual of the requested system <= 1e-6"]
    kinds = ["2x2real", "2x2cx12" if thorough else "2x2cx6", "3x3sym4" if thorough else "3x3sym3", "3x3herm", "3x3hermindef", "curated"] + (["3x3bin"] if thorough else [])
    for k in kinds:
        name, mod, cfg = model(k)
        chk.tlc_must_hold(name, cfg, label="Solvers " + k, extra_modules={name: mod})
    name, mod, cfg = model("3x3herm", variant="hermitian_as_general")
    r = tlc.run(name, cfg, extra_modules={name: mod}, expect_violation=True)
    if r.violated is None:
        pass  # LU is admissible for every matrix, so this variant is not a violation of admissibility; it is caught by the replay (auto/choice)
    jobs = []
    with cf.ThreadPoolExecutor(max_workers=8) as ex:
        for k in kinds:
            jobs.append(ex.submit(emit, k))
        for j in cf.as_completed(jobs):
            kind, r = j.result()
            chk.transitions += r.generated
            chk.tlc_runs.append({"module": "Solvers", "label": "emit " + kind, "generated": r.generated, "wall_s": round(r.wall, 2)})
            cases = [v[0] for tag, v in r.printed if tag == "MAT"]
            for part_c, part in zip(par.chunks(cases, 28), par.pmap(_chunk, par.chunks(cases, 28))):
                for c, res in zip(part_c, part):
                    chk.case({"A": c["A"]}, nontrivial=not c["cls"]["diag"])
                    if res:
                        chk.violation("C05/" + res[0], res[1], c)
    solver_life(chk, thorough)
    tiny_diagonal(chk)
    multigrid_interpolation(chk, thorough)
    observations(chk, chk.seed + 2, 12 if thorough else 4)
