"""C11 - EigenSolve returns genuine, normalised, ordered eigenpairs.

[S] Eigen.tla constructs exact symmetric pencils A = L Q D Q' L', B = L L' (Householder Q, distinct integer
    spectrum, unit lower triangular integer L) and the expected output (ascending eigenvalues, B-normalised
    eigenvectors L^-T Q e_i with non-negative mean, for the sparse path the nmodes values closest to sigma);
    TLC checks A q = lambda B q, q'Bq = 1, B-orthogonality and ordering exactly.
[R] dense (standard / generalised) and sparse (nmodes, several sigma) EigenSolve are compared with it.
[O] complex Hermitian, general non-symmetric and FE pencils with boundary conditions: residual, bilinear
    normalisation, ordering and count are evaluated numerically.
"""
import itertools
import warnings

import numpy as np
import scipy.sparse as sps

from vf import tlc


def q(v):
    return v[0] / v[1]


def eye_l(n, sub=None):
    L = [[1 if i == j else 0 for j in range(n)] for i in range(n)]
    if sub:
        for (i, j), v in sub.items():
            L[i][j] = v
    return tuple(tuple(r) for r in L)


def cases(thorough):
    cs = []
    vs3 = [(1, 1, 0), (1, 1, 1), (1, -1, 2), (1, 0, 0), (1, 1, 2)]
    ds3 = [(1, 2, 4), (3, -1, 2), (5, 0, -2)] + ([(-3, -1, -6), (7, 2, 1), (0, 4, -4)] if thorough else [])
    ls3 = [eye_l(3), eye_l(3, {(1, 0): 1, (2, 1): -1}), eye_l(3, {(1, 0): 2, (2, 0): 1, (2, 1): 1})] + ([eye_l(3, {(2, 0): -1}), eye_l(3, {(1, 0): -1, (2, 0): 1, (2, 1): 2})] if thorough else [])
    for v, d, l in itertools.product(vs3, ds3, ls3):
        cs.append(dict(v=v, d=d, l=l, nmodes=0, sigma=(0, 1)))
    vs5 = [(1, 1, 1, 1, 0), (1, -1, 0, 1, 1), (0, 1, 1, -1, 1)] + ([(1, 0, -1, 1, -1), (1, 1, 0, 0, 0), (0, 0, 1, 0, 0)] if thorough else [])     # v'v in {1, 2, 4}: dyadic reflector
    ds5 = [(1, 2, 3, 5, 6), (4, -1, 2, 6, 1)] + ([(-2, 7, 0, 3, 5), (6, 5, 3, 2, 1)] if thorough else [])
    ls5 = [eye_l(5), eye_l(5, {(1, 0): 1, (2, 1): -1, (3, 2): 1, (4, 3): 1})] + ([eye_l(5, {(2, 0): 1, (4, 1): -1, (3, 0): 1})] if thorough else [])
    for v, d, l in itertools.product(vs5, ds5, ls5):
        cs.append(dict(v=v, d=d, l=l, nmodes=0, sigma=(0, 1)))
        for nm, sg in ((2, (5, 2)), (2, (11, 2)), (3, (7, 4)), (2, (-1, 2)), (3, (9, 2))) + (((1, (13, 4)), (3, (-3, 2)), (2, (1, 4))) if thorough else ()):
            cs.append(dict(v=v, d=d, l=l, nmodes=nm, sigma=sg))
    return cs


DIRS3 = [dict(dA=((1, 0, 0), (0, 0, 0), (0, 0, 0)), dB=((0, 0, 0), (0, 0, 0), (0, 0, 0))),
         dict(dA=((0, 1, -1), (1, 2, 0), (-1, 0, 1)), dB=((0, 0, 0), (0, 0, 0), (0, 0, 0))),
         dict(dA=((1, 2, 0), (2, -1, 1), (0, 1, 0)), dB=((1, 0, 1), (0, 2, 0), (1, 0, -1)))]
DIRS5 = [dict(dA=tuple(tuple((i + 2 * j) % 3 - 1 if i <= j else (j + 2 * i) % 3 - 1 for j in range(5)) for i in range(5)),
              dB=tuple(tuple(0 for j in range(5)) for i in range(5))),
         dict(dA=tuple(tuple(1 if i == j else 0 for j in range(5)) for i in range(5)),
              dB=tuple(tuple((i * j) % 2 if i != j else i % 3 for j in range(5)) for i in range(5)))]


def model(cs, emit, der=False):
    invs = ["C11"] + (["Emit"] if emit else []) + (["DerivOK", "EmitDer"] if der else [])
    return tlc.mc("Eigen", dict(Cases=tlc.SetOf(cs), Dirs=tlc.SetOf(DIRS3 + DIRS5)), invariants=invs)


def qm(M):
    return np.array([[q(v) for v in row] for row in M])


def check_case(c):
    import pymoto as pym
    A, B = qm(c["A"]), qm(c["B"])
    lam = np.array(c["lam"], dtype=float)
    V = np.array([[q(x) for x in vec] for vec in c["vecs"]]).T       # columns
    n = A.shape[0]
    with warnings.catch_warnings():
        warnings.simplefilter("ignore")
        configs = []
        if c["nmodes"] == 0:
            configs.append(("dense-generalized", [A, B], {}))
            configs.append(("dense-generalized/column-major", [np.asfortranarray(A), np.asfortranarray(B)], {}))
            if c["std"]:
                configs.append(("dense-standard", [A], {}))
                configs.append(("dense-standard/column-major", [np.asfortranarray(A)], {}))
        else:
            configs.append(("sparse-generalized", [sps.csc_matrix(A), sps.csc_matrix(B)], dict(nmodes=c["nmodes"], sigma=q(c["sigma"]))))
            if c["std"]:
                configs.append(("sparse-standard", [sps.csc_matrix(A)], dict(nmodes=c["nmodes"], sigma=q(c["sigma"]))))
        for label, mats, kw in configs:
            before = [M.copy() for M in mats]
            try:
                m = pym.EigenSolve([pym.Signal("M%d" % i, M) for i, M in enumerate(mats)], **kw)
                m.response()
                W, Q = [np.asarray(s.state) for s in m.sig_out]
            except Exception as e:
                return "raise", "%s raised %s: %s" % (label, type(e).__name__, str(e)[:150])
            for M0, sg in zip(before, m.sig_in):
                M1 = sg.state
                if (M0 != M1).nnz if sps.issparse(M0) else not np.array_equal(M0, M1):
                    return "input-changed", "%s: response() changed the matrix it was given (the eigenpairs no longer belong to the input)" % label
            if W.shape != lam.shape or Q.shape != V.shape:
                return "count", "%s returned %s eigenvalues / vectors of shape %s, expected %s / %s" % (label, W.shape, Q.shape, lam.shape, V.shape)
            if not np.allclose(W, lam, rtol=1e-8, atol=1e-9):
                return "values", "%s eigenvalues %s, specification %s" % (label, W.tolist(), lam.tolist())
            # a vector whose entries sum to exactly zero has a free sign in the specification: align it before comparing
            Vc = V.copy()
            for a, free in enumerate(c.get("signfree", [])):
                if free and np.real(np.vdot(Vc[:, a], Q[:, a])) < 0:
                    Vc[:, a] = -Vc[:, a]
            if np.any(Q.real.mean(axis=0) < -1e-12):
                return "sign", "%s: an eigenvector has a negative mean entry" % label
            if not np.allclose(Q, Vc, rtol=1e-7, atol=1e-8):
                return "vectors", "%s eigenvectors differ from the exact B-normalised, sign-fixed ones (max err %.3g)" % (label, np.abs(Q - V).max())
    return None


def observations(chk, seed, n):
    """[O] classes without an exact construction: residual, bilinear normalisation, ordering, count"""
    import pymoto as pym
    rng = np.random.default_rng(seed)
    for k in range(n):
        nn = int(rng.integers(3, 8))
        M = rng.random((nn, nn)) - 0.5
        Mi = rng.random((nn, nn)) - 0.5
        Bm = rng.random((nn, nn)) - 0.5
        Bspd = Bm @ Bm.T + nn * np.eye(nn)
        kinds = {"hermitian": (M + 1j * Mi) + (M + 1j * Mi).conj().T, "real-general": M + np.diag(np.arange(nn) * 1.5),
                 "complex-symmetric": (M + 1j * Mi) + (M + 1j * Mi).T + np.diag(np.arange(nn) * (1.0 + 0.3j)),
                 "complex-general": M + 1j * Mi + np.diag(np.arange(nn) * 2.0)}
        for kind, A in kinds.items():
            for gen in (False, True):
                chk.count()
                case = {"kind": kind, "generalized": gen, "n": nn, "seed": int(seed), "k": k}
                sigs = [pym.Signal("A", A)] + ([pym.Signal("B", Bspd)] if gen else [])
                try:
                    with warnings.catch_warnings():
                        warnings.simplefilter("ignore")
                        m = pym.EigenSolve(sigs)
                        m.response()
                except Exception as e:
                    chk.violation("C11/obs/raise", "%s raised %s: %s" % (kind, type(e).__name__, str(e)[:120]), case)
                    continue
                W, Q = [s.state for s in m.sig_out]
                Bx = Bspd if gen else np.eye(nn)
                if W.shape != (nn,) or Q.shape != (nn, nn):
                    chk.violation("C11/obs/count", "dense path did not return the complete spectrum", case)
                    continue
                res = np.abs(A @ Q - Bx @ Q * W[None, :]).max() / max(1.0, np.abs(A).max())
                if res > 1e-8:
                    chk.violation("C11/obs/residual", "%s: |A q - lambda B q| = %.3g" % (kind, res), case)
                nrm = np.array([Q[:, i] @ Bx @ Q[:, i] for i in range(nn)])
                if np.abs(nrm - 1).max() > 1e-8:
                    chk.violation("C11/obs/normalisation", "%s: q'Bq = %s" % (kind, nrm.tolist()), case)
                if np.any(np.diff(np.argsort(W, kind="stable")) != 1) and np.any(np.diff(W.real) < -1e-12):
                    chk.violation("C11/obs/order", "%s: eigenvalues are not in ascending order" % kind, case)
    # FE pencil with boundary conditions, sparse path
    for k in range(max(1, n // 3)):
        g = [int(rng.integers(3, 6)), int(rng.integers(2, 4))]
        dom = pym.DomainDefinition(*g)
        x = 0.3 + 0.7 * rng.random(dom.nel)
        nodes0 = dom.nodes[0, :, :].flatten()
        bc = np.sort(np.concatenate([2 * nodes0, 2 * nodes0 + 1]))
        sx = pym.Signal("x", x)
        K = pym.AssembleStiffness(sx, domain=dom, bc=bc).response().sig_out[0].state
        Mm = pym.AssembleMass(sx, domain=dom, bc=bc, ndof=2, bcdiagval=1e-6).response().sig_out[0].state
        for nm, sg in ((3, 0.0), (4, 0.05)):
            chk.count()
            case = {"fe-grid": g, "nmodes": nm, "sigma": sg}
            try:
                with warnings.catch_warnings():
                    warnings.simplefilter("ignore")
                    m = pym.EigenSolve([pym.Signal("K", K), pym.Signal("M", Mm)], nmodes=nm, sigma=sg, hermitian=True)
                    m.response()
            except Exception as e:
                chk.violation("C11/obs/raise", "FE pencil raised %s: %s" % (type(e).__name__, str(e)[:120]), case)
                continue
            W, Q = [s.state for s in m.sig_out]
            if W.shape != (nm,) or Q.shape[1] != nm:
                chk.violation("C11/obs/count", "sparse path returned %s values for nmodes=%d" % (W.shape, nm), case)
                continue
            res = np.abs(K @ Q - (Mm @ Q) * W[None, :]).max() / max(1.0, abs(K).max())
            if res > 1e-7:
                chk.violation("C11/obs/residual", "FE pencil: |K q - lambda M q| = %.3g" % res, case)
            nrm = np.array([Q[:, i] @ (Mm @ Q[:, i]) for i in range(nm)])
            if np.abs(nrm - 1).max() > 1e-7:
                chk.violation("C11/obs/normalisation", "FE pencil: q'Mq = %s" % nrm.tolist(), case)
            if np.any(np.diff(W) < 0):
                chk.violation("C11/obs/order", "FE pencil: eigenvalues not ascending", case)
            if np.any(Q.mean(axis=0) < -1e-12):
                chk.violation("C11/obs/sign", "FE pencil: an eigenvector has a negative mean entry", case)
            # the nmodes values closest to the shift: compare with the dense spectrum
            Wd = np.linalg.eigvals(np.linalg.solve(Mm.toarray(), K.toarray())).real
            closest = np.sort(Wd[np.argsort(np.abs(Wd - sg))[:nm]])
            if not np.allclose(np.sort(W), closest, rtol=1e-6, atol=1e-9):
                chk.violation("C11/obs/selection", "FE pencil: returned %s, the %d eigenvalues closest to sigma are %s" % (W.tolist(), nm, closest.tolist()), case)


def run(chk, replay=None):
    if replay is not None:
        res = check_case(replay) if "vecs" in replay else None
        chk.case({k: replay.get(k) for k in ("A", "nmodes", "sigma")})
        if res:
            chk.violation("C11/" + res[0], res[1], replay)
        return
    thorough = chk.tier == "thorough"
    chk.extra["rule"] = ("one case per constructed pencil (Householder vector, integer spectrum, unit lower triangular factor, nmodes, sigma) with "
                         "TLC's exact eigenvalues and eigenvectors; plus seeded numerical observations for the classes without an exact construction")
    chk.assumptions += ["distinct eigenvalues; eigenvectors with zero mean (arbitrary sign) are excluded by the specification",
                        "[O] complex / non-symmetric / FE pencils: residual <= 1e-8 (dense) / 1e-7 (ARPACK)"]
    cs = cases(thorough)
    name, mod, cfg = model(cs, emit=False)
    chk.tlc_must_hold(name, cfg, label="Eigen C11 on %d pencils" % len(cs), extra_modules={name: mod})
    name, mod, cfg = model(cs, emit=True)
    r = chk.tlc(name, cfg, label="emit pencils", extra_modules={name: mod}, workers=1)
    for tag, v in r.printed:
        if tag != "EIG":
            continue
        c = v[0]
        try:
            res = check_case(c)
        except Exception as e:
            res = ("raise", "%s: %s" % (type(e).__name__, str(e)[:200]))
        chk.case({"A": c["A"], "B": c["B"], "nmodes": c["nmodes"], "sigma": c["sigma"]})
        if res:
            chk.violation("C11/" + res[0], res[1], c)
    observations(chk, chk.seed + 6, 60 if thorough else 12)
