"""C07 - Linear-system modules satisfy their defining equations.

[S] Solvers.tla: LinSysOK (for every dof partition free/prescribed of every enumerated matrix the free block
    times its adjugate is det I, so the documented two-step formulation implies A x = b) and SchurOK (the
    condensed matrix A_mm - A_mf A_ff^-1 A_fm is the inverse of the main block of the inverse of the
    (main+free) system, i.e. it reproduces the main-dof response), in exact Gaussian-integer arithmetic.
[R] LinSolve (dense, sparse, solver override, vector / block / complex right-hand sides), Inverse,
    SystemOfEquations (every partition, vector and block loads) and StaticCondensation (every main/free choice)
    are compared with TLC's exact adjugates / determinants / scaled Schur complements.
"""
import concurrent.futures as cf
import warnings

import numpy as np
import scipy.sparse as sps

from props import c05
from vf import par, tlc


def cm(M):
    return np.array([[complex(a, b) for a, b in row] for row in M])


def emit(kind):
    name, mod, cfg = tlc.mc("Solvers", dict(Mats=tlc.Raw(c05.mats_expr(kind)), Variant="faithful"), invariants=["EmitLS"], extra_defs=c05.EXTRA)
    return kind, tlc.run(name, cfg, extra_modules={name: mod}, workers=1, timeout=3000)


def close(a, b, tol=1e-9):
    a, b = np.asarray(a), np.asarray(b)
    if a.shape != b.shape:
        return False
    return bool(np.all(np.abs(a - b) <= tol * max(1.0, np.abs(b).max() if b.size else 1.0)))


def dense_of(x):
    if sps.issparse(x):
        return x.toarray()
    return np.asarray(x)


def check_case(c):
    import pymoto as pym
    A = cm(c["A"])
    cplxA = c["cls"]["cplx"]
    Ar = A if cplxA else A.real.copy()
    n = A.shape[0]
    adj, det = cm(c["sol"]["N"]["adj"]), complex(*c["sol"]["N"]["det"])
    r = np.random.default_rng(n * 7 + int(abs(det.real)))
    bi = r.integers(-3, 4, n).astype(float)
    ci = r.integers(-3, 4, n).astype(float)
    ci[-1] += 1
    with warnings.catch_warnings():
        warnings.simplefilter("ignore")
        # ---- LinSolve
        for sparse in (False, True):
            M = sps.csc_matrix(Ar) if sparse else Ar
            # every column of a block is its own system, whatever its magnitude (a unit load next to a tiny one)
            rhss = [("vec", bi), ("block", np.stack([bi, ci, bi - 2 * ci], axis=1)), ("blockscaled", np.stack([bi, 1e-9 * ci], axis=1))]
            if cplxA or not sparse:
                rhss.append(("cvec", bi + 1j * ci))
            sym, herm = bool(c["cls"]["sym"]), bool(c["cls"]["herm"])
            # solver override, and the truthful class flags a user may pass instead of relying on detection
            for override in (False, True, dict(symmetric=sym), dict(hermitian=herm), dict(symmetric=sym, hermitian=herm)):
                for rname, b in rhss:
                    kw = {}
                    if override is True:
                        kw["solver"] = pym.solvers.SolverSparseLU() if sparse else pym.solvers.SolverDenseQR()
                    elif isinstance(override, dict):
                        kw.update(override)
                    try:
                        m = pym.LinSolve([pym.Signal("A", M), pym.Signal("b", b.copy())], **kw)
                        x = m.response().sig_out[0].state
                    except Exception as e:
                        return "linsolve/raise", "LinSolve(%s, %s%s) raised %s: %s (A = %s)" % ("sparse" if sparse else "dense", rname, (", %s" % (override if isinstance(override, dict) else "override")) if override else "", type(e).__name__, str(e)[:100], A.tolist())
                    if not (c05.columns_close(x, (adj @ b) / det, 1e-9) if rname == "blockscaled" and np.shape(x) == np.shape(b) else close(x, (adj @ b) / det)):
                        return "linsolve", "LinSolve(%s, %s%s): A x != b (max error %.3g, A = %s)" % ("sparse" if sparse else "dense", rname, (", %s" % (override if isinstance(override, dict) else "override")) if override else "", np.abs(np.asarray(x) - (adj @ b) / det).max(), A.tolist())
        # ---- Inverse
        try:
            Bi = pym.Inverse(pym.Signal("A", Ar)).response().sig_out[0].state
        except Exception as e:
            return "inverse/raise", "Inverse raised %s: %s" % (type(e).__name__, str(e)[:100])
        if not close(Bi, adj / det) or not close(Ar @ Bi, np.eye(n)):
            return "inverse", "Inverse: A B != I (A = %s)" % A.tolist()
        # ---- SystemOfEquations
        for part in c["parts"]:
            f = np.array(part["f"]) - 1
            p = np.array(part["p"]) - 1
            aff, dff = cm(part["adj"]), complex(*part["det"])
            for nrhs in (None, 2):
                shf = (len(f),) if nrhs is None else (len(f), nrhs)
                shp = (len(p),) if nrhs is None else (len(p), nrhs)
                bf = r.integers(-3, 4, shf).astype(float)
                xp = r.integers(-2, 3, shp).astype(float)
                xf_exp = aff @ (bf - A[np.ix_(f, p)] @ xp) / dff
                for sparse in (True, False):
                    M = sps.csc_matrix(Ar) if sparse else Ar
                    flagged = {k: True for k in ("symmetric", "hermitian") if c["cls"][k[:3] if k == "symmetric" else "herm"]}
                    for give in (("both", "free", "prescribed") if (sparse and nrhs is None) else ("both",)) + (("flags",) if flagged else ()):
                        kw = dict(flagged) if give == "flags" else {}
                        if give == "flags":
                            give = "both"
                        if give in ("both", "free"):
                            kw["free"] = f
                        if give in ("both", "prescribed"):
                            kw["prescribed"] = p
                        label = "SystemOfEquations(%s, free=%s, prescribed=%s, given=%s, nrhs=%s)" % ("sparse" if sparse else "dense", f.tolist(), p.tolist(), give, nrhs)
                        try:
                            m = pym.SystemOfEquations([pym.Signal("A", M), pym.Signal("bf", bf.copy()), pym.Signal("xp", xp.copy())], **kw)
                            m.response()
                            x, b = [s.state for s in m.sig_out]
                        except Exception as e:
                            return "soe/raise/" + ("sparse" if sparse else "dense"), "%s raised %s: %s (A = %s)" % (label, type(e).__name__, str(e)[:100], A.tolist())
                        x, b = np.asarray(x), np.asarray(b)
                        if x.shape != (n,) + shf[1:] or b.shape != x.shape:
                            return "soe/shape", "%s: outputs have shapes %s, %s" % (label, x.shape, b.shape)
                        if not np.array_equal(x[p], xp) or not np.array_equal(b[f], bf):
                            return "soe/prescribed", "%s: prescribed values / applied loads are not reproduced" % label
                        if not close(x[f], xf_exp):
                            return "soe/free", "%s: free-dof solution differs from the exact one (A = %s)" % (label, A.tolist())
                        if not close(A @ x, b):
                            return "soe/Ax=b/" + ("sym" if c["cls"]["sym"] else "nonsym"), "%s: A x != b (max error %.3g, A = %s)" % (label, np.abs(A @ x - b).max(), A.tolist())
        # ---- StaticCondensation
        for sc in c["schur"]:
            mi = np.array(sc["m"]) - 1
            fi = np.array(sc["f"]) - 1
            exp = cm(sc["num"]) / complex(*sc["det"])
            for sparse in (True, False):
                M = sps.csc_matrix(Ar) if sparse else Ar
                label = "StaticCondensation(%s, main=%s, free=%s)" % ("sparse" if sparse else "dense", mi.tolist(), fi.tolist())
                flagged = {k: True for k in ("symmetric", "hermitian") if c["cls"]["sym" if k == "symmetric" else "herm"]}
                for kw in ({}, flagged) if flagged else ({},):
                    try:
                        Ared = pym.StaticCondensation(pym.Signal("A", M), main=mi, free=fi, **kw).response().sig_out[0].state
                    except Exception as e:
                        return "statcond/raise/" + ("sparse" if sparse else "dense"), "%s %s raised %s: %s (A = %s)" % (label, kw, type(e).__name__, str(e)[:100], A.tolist())
                    if not close(dense_of(Ared), exp):
                        return "statcond", "%s %s differs from the Schur complement (A = %s)" % (label, kw, A.tolist())
    return None


def _chunk(cases):
    out = []
    for c in cases:
        try:
            out.append(check_case(c))
        except Exception as e:
            out.append(("raise/harness", "%s: %s" % (type(e).__name__, str(e)[:200])))
    return out


def run(chk, replay=None):
    if replay is not None:
        res = check_case(replay)
        chk.case({"A": replay["A"]})
        if res:
            chk.violation("C07/" + res[0], res[1], replay)
        return
    thorough = chk.tier == "thorough"
    chk.extra["rule"] = ("one case per non-singular Gaussian-integer matrix; TLC prints adjugate/determinant, and for every dof partition the "
                         "adjugate/determinant of the free block and the scaled Schur complement; the four modules are run for dense and sparse "
                         "input, vector and block right-hand sides and every partition")
    chk.assumptions += ["a complex right-hand side for a real sparse matrix is outside LinSolve's documented inputs"]
    kinds = ["2x2real", "3x3sym3", "3x3herm", "3x3hermindef", "curated"] + (["2x2cx12", "3x3sym4", "3x3bin"] if thorough else ["2x2cx6"])
    for k in kinds:
        name, mod, cfg = tlc.mc("Solvers", dict(Mats=tlc.Raw(c05.mats_expr(k)), Variant="faithful"),
                                invariants=["AdjCorrect", "LinSysOK", "SchurOK"], extra_defs=c05.EXTRA)
        chk.tlc_must_hold(name, cfg, label="Solvers LinSysOK/SchurOK " + k, extra_modules={name: mod})
    jobs = []
    with cf.ThreadPoolExecutor(max_workers=8) as ex:
        for k in kinds:
            jobs.append(ex.submit(emit, k))
        for j in cf.as_completed(jobs):
            kind, r = j.result()
            chk.transitions += r.generated
            chk.tlc_runs.append({"module": "Solvers", "label": "emit " + kind, "generated": r.generated, "wall_s": round(r.wall, 2)})
            cases = [v[0] for tag, v in r.printed if tag == "LS"]
            cap = 1500 if thorough else 120
            if kind != "curated" and len(cases) > cap:
                cases = cases[::max(1, len(cases) // cap)]      # an evenly spaced subsample of each family (every matrix is still model-checked)
            for part_c, part in zip(par.chunks(cases, 28), par.pmap(_chunk, par.chunks(cases, 28))):
                for c, res in zip(part_c, part):
                    chk.case({"A": c["A"]}, nontrivial=not c["cls"]["diag"])
                    if res:
                        chk.violation("C07/" + res[0], res[1], c)
