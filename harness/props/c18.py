"""C18 - Signals and slices alias state, isolate accumulations and reset cleanly.

[S] Signals.tla: TLC checks NoAlias, MutateFrame, AddExact, ResetClears, SliceFrame, SliceEffect on
    the heap model, exhaustively to a depth bound, for 1-D, 2-D and scalar bases.
[R] all behaviours to a small depth and simulated long behaviours, emitted by TLC with the expected
    contents of every signal, slice and caller-held array after every action, are replayed on real
    pymoto Signal / SignalSlice objects (real and complex realisation).
[T] TraceSignals: random API histories on larger real/complex arrays of rank 1-3 are recorded from the
    real code and validated against the same actions by TLC.
"""
import concurrent.futures as cf
import itertools
import json
import random

import numpy as np

from vf import tlc

# ------------------------------------------------------------------------------------------------
# configurations: shape of the base array and slice table. A slice is (parent, python index) where
# parent is None (slice of signal A) or the number of an earlier slice (nested SignalSlice).
S_ = np.s_
CONFIGS = {
    "vec4": dict(shape=(4,), slices=[(None, S_[1:3]), (None, S_[::2]), (None, np.array([3, 0])),
                                     (None, S_[1:4]), (3, S_[0:2])]),
    "mat23": dict(shape=(2, 3), slices=[(None, S_[0, :]), (None, S_[:, 1]), (None, S_[0:2, 1:3]),
                                        (None, S_[:, ::2]), (3, S_[1, :]), (None, (np.array([1, 0]), np.array([0, 2])))]),
    # nested basic slices with negative steps, some reaching the first entry of their parent
    "vec4nest": dict(shape=(4,), slices=[(None, S_[:3]), (0, S_[::-1]), (None, S_[::-1]), (2, S_[1:3]), (None, S_[:]), (4, S_[::-2])]),
    # index tuples that mix basic slices, integers and index arrays in either order (numpy returns views of temporaries there)
    "mat23mix": dict(shape=(2, 3), slices=[(None, (slice(None), np.array([2, 0]))), (None, (slice(0, 1), np.array([1, 2]))),
                                           (None, (np.array([1, 0]), slice(1, 3))), (None, (1, np.array([0, 2]))),
                                           (None, S_[0:2, 0:2]), (4, (slice(None), np.array([1])))]),
    "scalar": dict(shape=(), slices=[]),
    # rank-0 numpy arrays: one cell like a scalar, but a mutable object like an array
    "rank0": dict(shape=(), slices=[], rank0=True),
    # the same machine without slices: replayed with DyadCarrier values (the type of every sparse-matrix sensitivity)
    "vec3dyad": dict(shape=(3,), slices=[]),
}


def slice_positions(cfg):
    """Positions (1-based, flat, in the parent's own flat numbering) selected by each slice, computed
    by numpy indexing of an index array - this is the *meaning* of the slice."""
    out = []
    shapes = []
    for par, sl in cfg["slices"]:
        pshape = cfg["shape"] if par is None else shapes[par]
        n = int(np.prod(pshape))
        sel = np.arange(1, n + 1).reshape(pshape)[sl]
        shapes.append(sel.shape)
        out.append(dict(par=0 if par is None else par + 1, idx=[int(v) for v in np.ravel(sel)]))
    return out, shapes


def consts_for(name, depth, record, variant="faithful", svals=(1, 3)):
    cfg = CONFIGS[name]
    defs, _ = slice_positions(cfg)
    n = int(np.prod(cfg["shape"])) if cfg["shape"] else 1
    return dict(N=n, Scalar=(cfg["shape"] == () and not cfg.get("rank0")), SliceDefs=defs, SVals=set(svals), MaxObj=6,
                Depth=depth, Record=record, Variant=variant)


INVS = ["TypeOK", "NoAlias"]
PROPS = ["MutateFrame", "AddExact", "ResetClears", "SliceFrame", "SliceEffect"]


def model_check(chk, name, depth, variant="faithful", expect_violation=False):
    mname, mod, cfg = tlc.mc("Signals", consts_for(name, depth, False, variant), invariants=INVS,
                             properties=PROPS, constraint="DepthBound", view="view")
    if expect_violation:
        return tlc.run(mname, cfg, extra_modules={mname: mod}, expect_violation=True)
    return chk.tlc_must_hold(mname, cfg, label="Signals exhaustive %s depth %d" % (name, depth),
                             extra_modules={mname: mod}, coverage=False)


def emit_behaviours(name, depth, simulate=None, seed=0, svals=(1,), on_batch=None):
    """on_batch(name, behaviours) is called for every 3000 behaviours while TLC is still running"""
    from vf import par
    mname, mod, cfg = tlc.mc("Signals", consts_for(name, depth, True, svals=svals), invariants=["Emit"])
    sink = par.Batcher("BEH", 3000, lambda b: on_batch(name, b)) if on_batch else None
    r = tlc.run(mname, cfg, extra_modules={mname: mod}, workers=1, simulate=simulate,
                depth=depth + 3 if simulate else None, seed=seed, timeout=3000, sink=sink)
    if sink is not None:
        sink.flush()
        r.nbeh = sink.n
    return name, r


# ------------------------------------------------------------------------------------------------
class Replayer:
    """Drives real pymoto Signals along a behaviour of Signals.tla."""

    def __init__(self, name, keep_a, z=1.0):
        import pymoto as pym
        self.dyad = name.endswith("dyad")
        self.cfg = CONFIGS[name]
        self.name = name
        self.z = z
        shape = self.cfg["shape"]
        self.scalar = shape == () and not self.cfg.get("rank0")
        self.n = int(np.prod(shape)) if shape else 1
        dt = complex if isinstance(z, complex) else float
        if self.dyad:
            base = np.arange(1, self.n + 1)
            self.u = {1: pym.DyadCarrier([(base * z).astype(dt)], [np.array([1.0])]),
                      2: pym.DyadCarrier([(10 * base * z).astype(dt)], [np.array([1.0])])}
            init = None
        elif self.scalar:
            self.u = {1: dt(1 * z), 2: dt(10 * z)}
            init = dt(0.0) if keep_a else None
        else:
            base = np.arange(1, self.n + 1)
            self.u = {1: (base * z).astype(dt).reshape(shape), 2: (10 * base * z).astype(dt).reshape(shape)}
            init = np.zeros(shape, dtype=dt) if keep_a else None
        self.dt = dt
        self.A = pym.Signal("A", sensitivity=init)
        self.B = pym.Signal("B")
        self.sig = {"A": self.A, "B": self.B}
        self.sl = []
        _, self.slshapes = slice_positions(self.cfg)
        # the slices are created while the base holds no state (real realisation) or while it holds one of its final shape
        # (complex realisation) - a slice object must mean the same entries either way
        late = isinstance(z, complex) and not self.dyad and not self.scalar and self.cfg["slices"]
        if late:
            self.A.state = np.zeros(shape, dtype=dt)
        for par, ix in self.cfg["slices"]:
            base_sig = self.A if par is None else self.sl[par]
            self.sl.append(base_sig[ix])
        if late:
            self.A.state = None

    def val(self, k, vals):
        """the value array handed to slice k: the values chosen by the specification"""
        shp = self.slshapes[k]
        return (np.array(vals) * self.z).astype(self.dt).reshape(shp)

    def apply(self, op, args):
        if op == "SetState":
            self.sig[args[0]].state = self.u[args[1]]
        elif op == "SetSens":
            self.sig[args[0]].sensitivity = None if args[1] == 0 else self.u[args[1]]
        elif op == "AddSens":
            self.sig[args[0]].add_sensitivity(self.u[args[1]])
        elif op == "Reset":
            kk = {"d": None, "T": True, "F": False}[args[1]]
            if kk is None:
                self.sig[args[0]].reset()
            else:
                self.sig[args[0]].reset(keep_alloc=kk)
        elif op == "SetStateSlice":
            k, c = args[2]
            v = self.val(k - 1, args[1])
            self.sl[k - 1].state = v
            v[...] = 99  # poison the temporary: nothing may alias it
        elif op == "SetSensSlice":
            k, c = args[2]
            if c == 0:
                self.sl[k - 1].sensitivity = None
            else:
                v = self.val(k - 1, args[1])
                self.sl[k - 1].sensitivity = v
                v[...] = 99
        elif op == "AddSensSlice":
            k, c = args[2]
            v = self.val(k - 1, args[1])
            self.sl[k - 1].add_sensitivity(v)
            v[...] = 99
        elif op == "ResetSlice":
            self.sl[args[2][0] - 1].reset()
        elif op == "UserMutate" and self.dyad:
            import pymoto as pym
            cur = self.u[args[0]].todense().ravel()[args[1] - 1]
            e = np.zeros(self.n, dtype=self.dt)
            e[args[1] - 1] = args[2] * self.z - cur
            self.u[args[0]] += pym.DyadCarrier([e], [np.array([1.0])])       # in place: the caller changes the object it holds
        elif op == "UserMutate":
            self.u[args[0]].flat[args[1] - 1] = args[2] * self.z
        else:
            raise KeyError(op)

    def proj(self, x):
        """concrete value -> abstract (list of ints or "None"); non-representable -> description"""
        if x is None:
            return "None"
        if self.dyad:
            a = np.asarray(x.todense())
            if a.size == 0:
                a = np.zeros(self.n)
        else:
            a = np.asarray(x)
        q = a.ravel() / self.z
        r = np.round(q.real)
        if not (np.all(np.abs(q - r) < 1e-9)):
            return ["non-integral", [complex(v).__repr__() for v in a.ravel()]]
        return [int(v) for v in r]

    def observe(self):
        o = {"A": {"state": self.proj(self.A.state), "sens": self.proj(self.A.sensitivity)},
             "B": {"state": self.proj(self.B.state), "sens": self.proj(self.B.sensitivity)},
             "sl": [{"state": self.proj(s.state), "sens": self.proj(s.sensitivity)} for s in self.sl],
             "u": [self.proj(self.u[1]), self.proj(self.u[2])]}
        return o


def normalise_expected(obs):
    """TLC's ToJson prints functions over 1..n as JSON arrays; an empty slice table prints as []"""
    sl = obs.get("sl", [])
    if isinstance(sl, dict):
        sl = [sl[k] for k in sorted(sl, key=int)]
    return {"A": obs["A"], "B": obs["B"], "sl": list(sl), "u": obs["u"]}


def replay_behaviour(name, beh, z):
    """returns None if conforming else (step index, op, expected, observed/exception)"""
    rp = Replayer(name, beh["keepA"], z)
    for i, stp in enumerate(beh["steps"]):
        op, args = stp["op"], stp["args"]
        try:
            rp.apply(op, args)
            got = rp.observe()
        except Exception as e:  # the specification allows the step, so raising is a violation
            return i, op, normalise_expected(stp["obs"]), "raised %s: %s" % (type(e).__name__, str(e)[:200])
        exp = normalise_expected(stp["obs"])
        if got != exp:
            return i, op, exp, got
    return None


def diff_fields(exp, got):
    if not isinstance(got, dict):
        return ["exception"]
    out = []
    for s in ("A", "B"):
        for f in ("state", "sens"):
            if exp[s][f] != got[s][f]:
                out.append("%s.%s" % (s, f))
    for k, (e, g) in enumerate(zip(exp["sl"], got["sl"])):
        for f in ("state", "sens"):
            if e[f] != g[f]:
                out.append("slice.%s" % f)
    if exp["u"] != got["u"]:
        out.append("user")
    return sorted(set(out))


REALISATIONS = [1.0, complex(1, 2)]


def dyad_admissible(beh):
    """DyadCarrier has no in-place zeroing (reset with kept allocation rebinds), so those steps are left to the array realisations"""
    if beh["keepA"]:
        return False
    return not any(s["op"] == "Reset" and s["args"][1] == "T" for s in beh["steps"])


def _replay_chunk(arg):
    name, behs = arg
    out = []
    for beh in behs:
        if name.endswith("dyad") and not dyad_admissible(beh):
            continue
        for z in REALISATIONS:
            res = replay_behaviour(name, beh, z)
            case = {"config": name, "z": repr(z), "keepA": beh["keepA"],
                    "ops": [[s["op"], s["args"]] for s in beh["steps"]]}
            fail = None
            if res is not None:
                i, op, exp, got = res
                fail = (i, op, exp, got, beh["steps"][:i + 1])
            out.append((case, fail))
    return out


def check_behaviours(chk, name, behs):
    from vf import par
    for part in par.pmap(_replay_chunk, [(name, c) for c in par.chunks(behs, 28)]):
        for case, fail in part:
            chk.case(case, nontrivial=len(case["ops"]) > 0)
            if fail is not None:
                i, op, exp, got, steps = fail
                fields = diff_fields(exp, got)
                case = dict(case, failing_step=i, expected=exp, observed=got, steps=steps)
                chk.violation("C18/%s/%s" % (op, "+".join(fields)),
                              "after %s in config %s the contents of %s differ from Signals.tla" % (op, name, fields),
                              case)


# ------------------------------------------------------------------------------------------------
# code -> spec: traces recorded from the real code, validated by TraceSignals.tla
def record_trace(rng, tid):
    """Random API history on a random-shaped real/complex array; every event logs the operation,
    the flat positions of the slice involved, the values passed, and the observed contents.
    Values are logged as [re, im] integer pairs; None is logged as []."""
    import pymoto as pym
    rank = rng.choice([1, 2, 3])
    dims = {1: [2, 3, 4, 5, 6], 2: [2, 3, 4], 3: [2, 3]}[rank]
    shape = tuple(rng.choice(dims) for _ in range(rank))
    n = int(np.prod(shape))
    cplx = rng.random() < 0.5
    dt = complex if cplx else float

    def rnd_vals(m):
        if cplx:
            return [complex(rng.randint(-3, 3), rng.randint(-3, 3)) for _ in range(m)]
        return [float(rng.randint(-3, 3)) for _ in range(m)]

    A = pym.Signal("A", sensitivity=(np.zeros(shape, dtype=dt) if rng.random() < 0.3 else None))
    keep = A.sensitivity is not None
    users = [np.array(rnd_vals(n), dtype=dt).reshape(shape) for _ in range(3)]

    def rnd_index():
        kind = rng.choice(["basic", "tuple", "fancy", "nested", "mixed"])
        if kind == "mixed" and rank >= 2:
            # basic slices, integers and one index array in any position of the tuple
            pos = rng.randint(0, rank - 1)
            ix = []
            for d in range(rank):
                if d == pos:
                    ix.append(np.array(rng.sample(range(shape[d]), rng.randint(1, shape[d]))))
                else:
                    a = rng.randint(0, shape[d] - 1)
                    b = rng.randint(a + 1, shape[d])
                    ix.append(slice(a, b, rng.choice([None, 1, 2])) if rng.random() < 0.8 else a)
            return [tuple(ix)]
        if kind == "mixed":
            kind = "fancy"
        if kind == "basic" or (rank == 1 and kind == "tuple"):
            a = rng.randint(0, shape[0] - 1)
            b = rng.randint(a + 1, shape[0])
            return [slice(a, b, rng.choice([None, 1, 2]))]
        if kind == "tuple":
            ix = []
            for d in range(rank):
                a = rng.randint(0, shape[d] - 1)
                b = rng.randint(a + 1, shape[d])
                ix.append(slice(a, b, rng.choice([None, 1, 2])) if rng.random() < 0.8 else a)
            return [tuple(ix)]
        if kind == "fancy":
            m = rng.randint(1, shape[0])
            return [np.array(rng.sample(range(shape[0]), m))]
        a = rng.randint(0, shape[0] - 1)
        b = rng.randint(a + 1, shape[0])
        c = rng.randint(0, b - a - 1)
        d = rng.randint(c + 1, b - a)
        return [slice(a, b), slice(c, d)]

    def enc(x):
        if x is None:
            return []
        a = np.asarray(x, dtype=complex).ravel()
        return [[int(round(v.real)), int(round(v.imag))] for v in a]

    def snapshot():
        return {"state": enc(A.state), "sens": enc(A.sensitivity), "users": [enc(u) for u in users]}

    users0 = [enc(u) for u in users]
    events = []
    for _ in range(rng.randint(10, 25)):
        op = rng.choice(["SetState", "SetSens", "AddSens", "Reset", "SetStateSlice", "SetSensSlice",
                         "AddSensSlice", "ResetSlice", "UserMutate", "AddSens", "AddSensSlice"])
        ev = {"op": op}
        try:
            if op in ("SetState", "SetSens", "AddSens"):
                ui = rng.randint(0, 2)
                ev["obj"] = ui + 1
                if op == "SetState":
                    A.state = users[ui]
                elif op == "SetSens":
                    if rng.random() < 0.2:
                        ev["obj"] = 0
                        A.sensitivity = None
                    else:
                        A.sensitivity = users[ui]
                else:
                    A.add_sensitivity(users[ui])
            elif op == "Reset":
                kk = rng.choice(["d", "T", "F"])
                ev["kk"] = kk
                if kk == "d":
                    A.reset()
                else:
                    A.reset(keep_alloc=(kk == "T"))
            elif op == "UserMutate":
                ui = rng.randint(0, 2)
                p = rng.randint(0, n - 1)
                v = rnd_vals(1)[0]
                users[ui].flat[p] = v
                ev.update(obj=ui + 1, pos=p + 1, val=enc(np.array([v]))[0])
            else:
                ixs = rnd_index()
                sig = A
                sel = np.arange(1, n + 1).reshape(shape)
                for ix in ixs:
                    sig = sig[ix]
                    sel = sel[ix]
                pos = [int(v) for v in np.ravel(sel)]
                ev["pos"] = pos
                if op == "ResetSlice":
                    sig.reset()
                else:
                    # protocol: a slice can only be written when the base has a state (the zero
                    # sensitivity is created from the state's shape)
                    if A.state is None and (op == "SetStateSlice" or A.sensitivity is None):
                        continue
                    if op == "SetSensSlice" and rng.random() < 0.2:
                        ev["vals"] = []
                        sig.sensitivity = None
                    else:
                        vals = rnd_vals(len(pos))
                        arr = np.array(vals, dtype=dt).reshape(np.shape(sel))
                        ev["vals"] = enc(arr)
                        if op == "SetStateSlice":
                            sig.state = arr
                        elif op == "SetSensSlice":
                            sig.sensitivity = arr
                        else:
                            sig.add_sensitivity(arr)
                        arr[...] = 99
                ev["slstate"] = enc(sig.state)
                ev["slsens"] = enc(sig.sensitivity)
        except Exception as e:
            ev["raised"] = "%s: %s" % (type(e).__name__, str(e)[:100])
        ev.update(snapshot())
        events.append(ev)
    return {"tid": tid, "n": n, "keep": keep, "users0": users0, "events": events, "shape": list(shape), "cplx": cplx}


def part_of(tr, k):
    """real (k=0) or imaginary (k=1) part of a recorded trace as an integer trace"""
    def vec(v):
        return [x[k] for x in v]
    evs = []
    for e in tr["events"]:
        f = dict(e)
        for key in ("state", "sens", "slstate", "slsens", "vals"):
            if key in f:
                f[key] = vec(f[key])
        f["users"] = [vec(u) for u in e["users"]]
        if "val" in f:
            f["val"] = e["val"][k]
        evs.append(f)
    return {"tid": tr["tid"] * 2 + k, "keep": tr["keep"], "users0": [vec(u) for u in tr["users0"]], "events": evs}


def record_traces(seed, count):
    import pymoto as pym  # noqa: F401
    rng = random.Random(seed)
    return [record_trace(rng, t + 1) for t in range(count)]


def validate_traces(chk, traces):
    """Batched validation: TraceSignals.tla replays every recorded event with the specification's
    own actions and compares the logged observations; the declarative properties are evaluated on
    the observed executions as well."""
    parts = []
    for tr in traces:
        parts.append(part_of(tr, 0))
        if tr["cplx"]:
            parts.append(part_of(tr, 1))
    cfg = ("SPECIFICATION TraceSpec\nINVARIANT Progress\nINVARIANT NoAlias\nPROPERTY MutateFrame\nPROPERTY AddExact\n"
           "PROPERTY ResetClears\nPROPERTY SliceFrame\nPROPERTY SliceEffect\nPOSTCONDITION Report\n")
    r = chk.tlc("TraceSignals", cfg, label="TraceSignals batch of %d" % len(parts), workers=1,
                extra_files={"traces.json": json.dumps(parts)}, env={"TRACE_FILE": "traces.json"}, timeout=3000)
    if r.violated is not None:
        raise tlc.TLCError("TraceSignals: unexpected TLC verdict %s\n%s" % (r.violated, r.stdout[-3000:]))
    verdict = {}
    for tag, vals in r.printed:
        if tag == "TRACE":
            verdict[vals[0]] = (vals[1], vals[2])
    if len(verdict) != len(parts):
        raise tlc.TLCError("TraceSignals reported %d verdicts for %d traces\n%s" % (len(verdict), len(parts), r.stdout[-2000:]))
    for tr in traces:
        chk.add_trace()
        for k in ((0, 1) if tr["cplx"] else (0,)):
            matched, need = verdict[tr["tid"] * 2 + k]
            if matched != need:
                ev = tr["events"][matched - 1] if 0 <= matched - 1 < len(tr["events"]) else None
                chk.violation("C18/trace/%s" % (ev["op"] if ev else "?"),
                              "recorded trace rejected by TraceSignals at event %d (%s)%s"
                              % (matched, ev["op"] if ev else "?", " raised " + ev["raised"] if ev and "raised" in ev else ""),
                              {"trace": tr, "matched_prefix": matched - 1})
                break
    return r


# ------------------------------------------------------------------------------------------------
def run(chk, replay=None):
    if replay is not None:
        if "trace" in replay:
            validate_traces(chk, [dict(replay["trace"], tid=1)])
            return
        beh = {"keepA": replay["keepA"], "steps": replay["steps"]}
        z = complex(replay["z"]) if "j" in replay["z"] else float(replay["z"])
        res = replay_behaviour(replay["config"], beh, z)
        chk.case(replay)
        if res is not None:
            chk.violation("C18/%s/%s" % (res[1], "+".join(diff_fields(res[2], res[3]))), "replayed case still fails", replay)
        return

    thorough = chk.tier == "thorough"
    chk.extra["rule"] = ("behaviours (operation sequences with expected contents after every action) are emitted by "
                         "TLC from Signals.tla: all behaviours to a small depth and seeded simulated ones; each is "
                         "replayed with a real and a complex realisation; distinct = distinct (config, realisation, "
                         "operation sequence); traces = API histories recorded from the real code and accepted by "
                         "TraceSignals.tla")
    chk.assumptions += ["numpy indexing defines the meaning (positions) of a slice",
                        "integer-array slices have no repeated indices; nested slices are basic slices or a slice-then-index-array tuple",
                        "values are small integers times a fixed real or complex unit (additive homomorphism)"]
    # [S] exhaustive checking of the declarative properties on the operational model
    ex_depth = {"vec4": 6 if thorough else 4, "vec4nest": 5 if thorough else 4, "mat23": 5 if thorough else 4, "mat23mix": 5 if thorough else 4, "scalar": 8 if thorough else 6, "rank0": 8 if thorough else 6, "vec3dyad": 6 if thorough else 5}
    for name, d in ex_depth.items():
        model_check(chk, name, d)
    # vacuity guard: negative variants must be refuted
    for variant, prop in (("add_aliases", "NoAlias"), ("slice_reset_all", "SliceFrame")):
        r = model_check(chk, "vec4", 4, variant=variant, expect_violation=True)
        if r.violated is None:
            raise tlc.TLCError("negative variant %s of Signals.tla was not refuted" % variant)
    # [R] spec -> code
    jobs = []
    path_depth = 3 if thorough else 2
    sim_n = 8000 if thorough else 1200
    sim_depth = 14 if thorough else 10
    # emission runs are taken a few at a time and their results dropped as soon as they are replayed (memory stays bounded)
    plan = []
    for name in CONFIGS:
        plan.append((name, path_depth, None, 0, (1,)))
        nsim = sim_n if name not in ("scalar", "rank0", "vec3dyad") else sim_n // 4
        chunks = 8 if thorough else 1
        for c in range(chunks):
            plan.append((name, sim_depth, nsim // chunks, chk.seed * 101 + 7 + c, (1, 3)))
    width = 4
    for k in range(0, len(plan), width):
        with cf.ThreadPoolExecutor(max_workers=width) as ex:
            futs = [ex.submit(emit_behaviours, *args, on_batch=lambda nm, b: check_behaviours(chk, nm, b)) for args in plan[k:k + width]]
            for j in cf.as_completed(futs):
                name, r = j.result()
                chk.transitions += r.generated
                chk.tlc_runs.append({"module": "Signals", "label": "emit %s" % name, "generated": r.generated,
                                     "distinct": r.distinct, "wall_s": round(r.wall, 2)})
                if not r.nbeh:
                    raise tlc.TLCError("no behaviours emitted for %s\n%s" % (name, r.stdout[-1500:]))
            del futs
    # [T] code -> spec
    ntr = 4000 if thorough else 300
    traces = record_traces(chk.seed + 1, ntr)
    for i in range(0, len(traces), 500):
        validate_traces(chk, traces[i:i + 500])
    chk.exhaustive = False
