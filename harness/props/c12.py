"""C12 - Element-level operators reproduce affine fields exactly and agree with assembly.

[S] FE.tla / FECases.tla (ElemOK, OpTranspose): for affine displacement fields with rational gradients the
    centroid strain operator returns the symmetric gradient with engineering shear, stress = D strain,
    V stress.strain = u'Ku with the exactly integrated stiffness, the thermal load is self-equilibrated and
    equals K times the free expansion (plane stress, 3D); the nodal scatter operator is the transpose of
    the element gather operator.
[R] Strain / Stress / ElementAverage / ElementOperation / NodalOperation / ThermoMechanical are compared
    with TLC's exact values on single elements and on multi-element meshes.
"""
import numpy as np

import fecases
from fecases import q
from vf import tlc

SHEAR_ROWS = {2: [2], 3: [3, 4, 5]}


def qm(M):
    return np.array([[q(v) for v in row] for row in M])


def qv(v):
    return np.array([q(x) for x in v])


def affine_u(dom, Gm, c):
    pos = dom.get_node_position()      # (dim, nnodes)
    u = (Gm @ pos).T + c               # (nnodes, dim)
    return u.ravel()


def check_elem(c, findings):
    """returns list of (signature-kind, message); known-finding hits are appended to `findings`"""
    import pymoto as pym
    dim = c["dim"]
    sz = [q(v) for v in c["sz"]]
    E, nu = q(c["E"]), q(c["nu"])
    plane = c["mode"] if dim == 2 else "strain"
    B = qm(c["B"])
    D = qm(c["D"])
    thick = sz[2] if dim == 2 else 1.0
    shear = SHEAR_ROWS[dim]
    out = []
    for g in ([1, 1], [3, 2]) if dim == 2 else ([1, 1, 1], [2, 2, 1]):
        dom = pym.DomainDefinition(g[0], g[1], g[2] if dim == 3 else 0, unitx=sz[0], unity=sz[1], unitz=sz[2])
        # --- strain operator
        ms = pym.Strain(pym.Signal("u", np.zeros(dim * dom.nnodes)), domain=dom, voigt=True)
        Bm = ms.element_matrix
        if Bm.shape != B.shape:
            return [("strain-operator", "Strain operator has shape %s, specification %s" % (Bm.shape, B.shape))]
        ok_plain = np.allclose(Bm, B, rtol=1e-12, atol=1e-14)
        Bx2 = B.copy()
        Bx2[shear, :] *= 2
        doubled = (not ok_plain) and np.allclose(Bm, Bx2, rtol=1e-12, atol=1e-14)
        if doubled:
            findings.append("strain-shear-x2")
        elif not ok_plain:
            return [("strain-operator", "dim %d size %s: centroid strain operator differs from the specification (max err %.3g)" % (dim, sz, np.max(np.abs(Bm - B))))]
        x = np.linspace(0.5, 1.5, dom.nel)
        sx = pym.Signal("x", x)
        K = pym.AssembleStiffness(sx, domain=dom, e_modulus=E, poisson_ratio=nu, plane=plane).response().sig_out[0].state
        for Gq, epsq, sigq, en in c["aff"]:
            Gm = qm(Gq)
            eps, sig = qv(epsq), qv(sigq)
            u = affine_u(dom, Gm, np.ones(dim))
            ms.sig_in[0].state = u
            e_got = ms.response().sig_out[0].state           # (nstrain, nel)
            e_exp = np.repeat(eps[:, None], dom.nel, axis=1)
            if doubled:
                e_fix = e_got.copy()
                e_fix[shear, :] /= 2
            else:
                e_fix = e_got
            if e_got.shape != e_exp.shape or not np.allclose(e_fix, e_exp, rtol=1e-12, atol=1e-13):
                return [("strain-affine", "dim %d grid %s gradient %s: Strain returns %s, exact symmetric gradient %s" % (dim, g, Gm.tolist(), e_got[:, 0].tolist(), eps.tolist()))]
            mst = pym.Stress(pym.Signal("u", u), domain=dom, e_modulus=E, poisson_ratio=nu, plane=plane)
            s_got = mst.response().sig_out[0].state
            s_exp = np.repeat((thick * sig)[:, None], dom.nel, axis=1)
            s_fix = s_got.copy()
            if doubled:
                # stress = D * (their strain): the shear stress carries the same factor
                s_fix[shear, :] /= 2
            if s_got.shape != s_exp.shape or not np.allclose(s_fix, s_exp, rtol=1e-12, atol=1e-13):
                return [("stress-affine", "dim %d grid %s gradient %s: Stress returns %s, D*strain = %s" % (dim, g, Gm.tolist(), s_got[:, 0].tolist(), (thick * sig).tolist()))]
            # energy: sum_e x_e V_e stress_e . strain_e = u'Ku  (V_e: in-plane area x thickness is already in the stress in 2D)
            Vin = np.prod(sz[:dim])
            en_mod = float(np.sum(x * Vin * np.sum(s_got * e_got, axis=0)))
            uKu = float(u @ (K @ u))
            en_spec = q(en) * thick * x.sum()
            if abs(uKu - en_spec) > 1e-10 * max(1.0, abs(en_spec)):
                return [("energy-stiffness", "u'Ku = %r but the specification's V*stress.strain = %r" % (uKu, en_spec))]
            if abs(en_mod - uKu) > 1e-10 * max(1.0, abs(uKu)):
                if doubled:
                    findings.append("strain-shear-x2")
                else:
                    return [("energy", "sum x V stress.strain = %r differs from u'Ku = %r" % (en_mod, uKu))]
        # --- element average of a linear nodal field is the centroid value
        pos = dom.get_node_position()
        gv = np.arange(1, dim + 1) * 0.5
        for nd in (1, 2):
            f = np.stack([(gv * (k + 1)) @ pos + k for k in range(nd)], axis=1).ravel()     # dof-interleaved
            avg = pym.ElementAverage(pym.Signal("v", f), domain=dom).response().sig_out[0].state
            cen = pos[:, dom.conn].mean(axis=2)           # (dim, nel) centroids
            exp = np.stack([(gv * (k + 1)) @ cen + k for k in range(nd)], axis=0)
            exp = exp[0] if nd == 1 else exp
            if np.shape(avg) != np.shape(exp) or not np.allclose(avg, exp, rtol=1e-12, atol=1e-13):
                return [("element-average", "ElementAverage of a linear field (ndof %d) is not the centroid value" % nd)]
        # --- thermal load
        alpha = 0.5
        mt = pym.ThermoMechanical(pym.Signal("xt", np.ones(dom.nel)), domain=dom, e_modulus=E, poisson_ratio=nu, alpha=alpha, plane=plane)
        fth = qv(c["fth"])
        if mt.element_matrix.shape != fth.shape or not np.allclose(mt.element_matrix, fth, rtol=1e-12, atol=1e-14):
            return [("thermal-element", "thermal load vector of one element differs from the specification")]
        f = mt.response().sig_out[0].state.reshape(dom.nnodes, dim)
        if np.abs(f.sum(axis=0)).max() > 1e-12 * max(1.0, np.abs(f).max()):
            return [("thermal-force", "thermal load has a non-zero resultant force")]
        for i in range(dim):
            for j in range(i + 1, dim):
                if abs(np.sum(pos[i] * f[:, j] - pos[j] * f[:, i])) > 1e-11 * max(1.0, np.abs(f).max() * np.abs(pos).max()):
                    return [("thermal-moment", "thermal load has a non-zero resultant moment")]
        if dim == 3 or plane == "stress":
            K1 = pym.AssembleStiffness(pym.Signal("x", np.ones(dom.nel)), domain=dom, e_modulus=E, poisson_ratio=nu, plane=plane).response().sig_out[0].state
            uexp = alpha * affine_u(dom, np.eye(dim), np.zeros(dim))
            if not np.allclose(K1 @ uexp, f.ravel(), rtol=1e-11, atol=1e-12 * max(1.0, np.abs(f).max())):
                return [("thermal-expansion", "thermal load differs from K times the free thermal expansion")]
    return out


def check_eop(c):
    """ElementOperation / NodalOperation against the specification's gather matrix and its transpose"""
    import pymoto as pym
    g, ndof = c["g"], c["ndof"]
    dom = pym.DomainDefinition(g["nx"], g["ny"], g["nz"])
    Mx = np.array(c["eop"], dtype=float)                 # rows (r major, e minor), cols dof
    Bm = np.array(c["Ke"], dtype=float)[:2]              # the 2 x ndofel operator used by the specification
    n = ndof * dom.nnodes
    J = np.zeros_like(Mx)
    mo = pym.ElementOperation(pym.Signal("u", np.zeros(n)), domain=dom, element_matrix=Bm)
    for j in range(n):
        u = np.zeros(n)
        u[j] = 1.0
        mo.sig_in[0].state = u
        J[:, j] = mo.response().sig_out[0].state.ravel()
    if not np.array_equal(J, Mx):
        return "element-operation", "grid %s ndof %d: ElementOperation differs from the gather matrix of the specification" % (g, ndof)
    Jn = np.zeros((n, Mx.shape[0]))
    mn = pym.NodalOperation(pym.Signal("x", np.zeros((2, dom.nel))), domain=dom, element_matrix=Bm)
    for k in range(Mx.shape[0]):
        x = np.zeros(Mx.shape[0])
        x[k] = 1.0
        mn.sig_in[0].state = x.reshape(2, dom.nel)
        Jn[:, k] = mn.response().sig_out[0].state
    if not np.array_equal(Jn, Mx.T):
        return "nodal-operation", "grid %s ndof %d: NodalOperation is not the transpose of ElementOperation" % (g, ndof)
    # operators with two leading dimensions (k x l x dofs): B3[a, b] = (a+1) B[0] + (b-1) B[1], so that the expected values follow
    # from the specification's gather matrix by linearity
    coef = np.array([[[a + 1.0, b - 1.0] for b in range(3)] for a in range(2)])            # (2, 3, 2)
    B3 = np.einsum("abr,ri->abi", coef, Bm)
    rng3 = np.random.default_rng(7 * n + 1)
    u = rng3.integers(-3, 4, n).astype(float)
    Y = (Mx @ u).reshape(2, dom.nel)
    y3 = pym.ElementOperation(pym.Signal("u", u), domain=dom, element_matrix=B3).response().sig_out[0].state
    if np.shape(y3) != (2, 3, dom.nel) or not np.array_equal(y3, np.einsum("abr,re->abe", coef, Y)):
        return "element-operation-kl", "grid %s ndof %d: ElementOperation with a (2, 3, dofs) operator differs from the specification" % (g, ndof)
    x3 = rng3.integers(-2, 3, (2, 3, dom.nel)).astype(float)
    z = np.einsum("abr,abe->re", coef, x3).reshape(-1)
    v3 = pym.NodalOperation(pym.Signal("x", x3), domain=dom, element_matrix=B3).response().sig_out[0].state
    if np.shape(v3) != (n,) or not np.array_equal(v3, Mx.T @ z):
        return "nodal-operation-kl", "grid %s ndof %d: NodalOperation with a (2, 3, dofs) operator is not the transpose of ElementOperation" % (g, ndof)
    # operator given per node only: repeated for every dof, output (ndof, ..., nel)
    Bn = Bm[:, ::ndof][:, :dom.elemnodes] if Bm.shape[1] >= dom.elemnodes * ndof else None
    if Bn is not None and ndof > 1:
        mr = pym.ElementOperation(pym.Signal("u", np.zeros(n)), domain=dom, element_matrix=Bn.copy())
        rng = np.random.default_rng(n)
        u = rng.integers(-3, 4, n).astype(float)
        mr.sig_in[0].state = u
        y = mr.response().sig_out[0].state
        dc = dom.get_dofconnectivity(ndof)
        exp = np.zeros((ndof, Bn.shape[0], dom.nel))
        for i in range(ndof):
            exp[i] = Bn @ u[dc[:, i::ndof]].T
        if y.shape != exp.shape or not np.array_equal(y, exp):
            return "element-operation-repeat", "grid %s ndof %d: per-node operator repeated over dofs gives a different result" % (g, ndof)
    return None


def run(chk, replay=None):
    thorough = chk.tier == "thorough"
    if replay is not None:
        f = []
        res = check_elem(replay, f) if "B" in replay else ([check_eop(replay)] if check_eop(replay) else [])
        chk.case({k: replay[k] for k in replay if k in ("dim", "sz", "mode", "E", "nu", "g", "ndof")})
        for r in res:
            chk.violation("C12/" + r[0], r[1], replay)
        return
    chk.extra["rule"] = "element cases (dimension, rational sizes, material, plane mode, affine gradients) and gather-operator cases printed by TLC"
    chk.assumptions += ["Stress in 2D carries the out-of-plane size as the implementation does (the property asks for unit thickness; the factor is applied to the specification's stress)"]
    cases = fecases.emit_all(chk, thorough)
    for c in cases["ELEM"]:
        findings = []
        try:
            res = check_elem(c, findings)
        except Exception as e:
            res = [("raise", "element case raised %s: %s" % (type(e).__name__, str(e)[:200]))]
        key = {k: c[k] for k in ("dim", "sz", "mode", "E", "nu")}
        chk.case(key)
        for r in res:
            chk.violation("C12/" + r[0], r[1], c)
        if findings:
            chk.violation("C12/strain-shear-x2", "", key)
    for c in cases["ASM"]:
        if c["bc"]:
            continue
        try:
            res = check_eop(c)
        except Exception as e:
            res = ("raise", "operator case raised %s: %s" % (type(e).__name__, str(e)[:200]))
        chk.case({"g": c["g"], "ndof": c["ndof"], "operator": "2 x ndofel"})
        if res:
            chk.violation("C12/" + res[0], res[1], c)
