#!/usr/bin/env python3
"""usage: mkmutant.py <name> <file relative to repo> <<< JSON list of [old, new] replacements
Creates selftest/mutants/<name>.diff from /repo HEAD (each `old` must occur exactly once)."""
import json, os, subprocess, sys, tempfile
name, rel = sys.argv[1], sys.argv[2]
reps = json.load(sys.stdin)
src = subprocess.check_output(["git", "-C", "/repo", "show", "HEAD:" + rel])      # bytes: some files have CRLF line ends
new = src
crlf = b"\r\n" in src
for old, rep in reps:
    old, rep = old.encode(), rep.encode()
    if crlf:
        old, rep = old.replace(b"\n", b"\r\n"), rep.replace(b"\n", b"\r\n")
    assert new.count(old) == 1, (new.count(old), old)
    new = new.replace(old, rep)
with tempfile.TemporaryDirectory() as d:
    for side, text in (("a", src), ("b", new)):
        p = os.path.join(d, side, rel)
        os.makedirs(os.path.dirname(p), exist_ok=True)
        open(p, "wb").write(text)
    out = subprocess.run(["diff", "-u", os.path.join("a", rel), os.path.join("b", rel)], cwd=d, stdout=subprocess.PIPE).stdout
open(os.path.join(os.path.dirname(os.path.abspath(__file__)), "mutants", name + ".diff"), "wb").write(out)
print(name, len(out.splitlines()), "lines")
