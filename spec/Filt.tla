-------------------------------- MODULE Filt --------------------------------
(***************************************************************************)
(* FilterConv and DensityFilter of pymoto/modules/filter.py.               *)
(*                                                                         *)
(* Operational: the padded index array is built axis by axis (x, y, z);    *)
(* per axis first the wrapped sides, then the upper edge, then the lower   *)
(* edge are padded (np.pad on the array of element numbers), constant      *)
(* sides become overrides that are applied in that order; the filtered     *)
(* field is the valid-mode convolution of the kernel with the padded       *)
(* field.                                                                  *)
(* Declarative: the field is extended beyond each face by that face's rule *)
(* (symmetric: mirror including the edge element, edge: repeat the edge    *)
(* element, wrap: periodic, value: constant), along x, then y, then z, and *)
(* y(c) = sum_o w(P - o) X(c + o).                                         *)
(* Also: the support structure of the cone kernel (d^2 < r^2) for          *)
(* DensityFilter / FilterConv(radius).                                     *)
(***************************************************************************)
EXTENDS Num, FiniteSets, TLC, Json

(* a padded-axis entry is an original index (>= 0) or a constant marker -1 - v  (v = 0, 1, ...) *)
IsConst(e) == e < 0
ConstVal(e) == -1 - e
(* modes are strings: "symmetric", "edge", "wrap", or "c<v>" for the constant value v *)
CV(m) == CASE m = "c0" -> 0 [] m = "c1" -> 1 [] m = "c2" -> 2 [] m = "c5" -> 5
Mk(m) == -1 - CV(m)

Rev(s) == Tup([i \in 1..Len(s) |-> s[Len(s) + 1 - i]])
Rep(e, k) == Tup([i \in 1..k |-> e])
Take(s, k) == SubSeq(s, 1, k)
TakeLast(s, k) == SubSeq(s, Len(s) - k + 1, Len(s))

(* operational: FilterConv._process_padding for one axis of n elements, pad size P <= n *)
PadAxis(n, P, m0, m1) ==
  LET base == Tup([i \in 1..n |-> i - 1])
      lowWrap == IF m0 = "wrap" THEN TakeLast(base, P) ELSE <<>>
      highWrap == IF m1 = "wrap" THEN Take(base, P) ELSE <<>>
      pad1a == lowWrap \o base \o highWrap
      pad1b == IF m1 = "edge" THEN pad1a \o Rep(pad1a[Len(pad1a)], P)
               ELSE IF m1 = "symmetric" THEN pad1a \o Rev(TakeLast(pad1a, P))
               ELSE IF m1 = "wrap" THEN pad1a
               ELSE pad1a \o Rep(Mk(m1), P)
      pad1 == IF m0 = "edge" THEN Rep(pad1b[1], P) \o pad1b
              ELSE IF m0 = "symmetric" THEN Rev(Take(pad1b, P)) \o pad1b
              ELSE IF m0 = "wrap" THEN pad1b
              ELSE Rep(Mk(m0), P) \o pad1b
  IN pad1

(* declarative: where does padded position q (0-based, 0..n+2P-1) read from *)
Ext(n, P, m0, m1, q) ==
  LET i == q - P IN
  IF i >= 0 /\ i < n THEN i
  ELSE IF i < 0 THEN (CASE m0 = "symmetric" -> -i - 1 [] m0 = "edge" -> 0 [] m0 = "wrap" -> i + n [] OTHER -> Mk(m0))
  ELSE (CASE m1 = "symmetric" -> 2 * n - 1 - i [] m1 = "edge" -> n - 1 [] m1 = "wrap" -> i - n [] OTHER -> Mk(m1))

Modes == {"symmetric", "edge", "wrap", "c2"}
PadAxisSound == \A n \in 1..4 : \A P \in 0..(IF n < 2 THEN n ELSE 2) : \A m0 \in Modes, m1 \in Modes :
                   PadAxis(n, P, m0, m1) = Tup([q \in 1..(n + 2 * P) |-> Ext(n, P, m0, m1, q - 1)])

-----------------------------------------------------------------------------
(* ---- whole filter on a grid g = <<nx, ny, nz>> (nz >= 1; 2D has nz = 1), kernel w[a][b][c] ---- *)
CONSTANTS Grids, Kernels, ModeSets, Variant
(* Kernels: set of 3-D arrays (sequences) of integers with odd sizes; ModeSets: set of 6-tuples <<x0,x1,y0,y1,z0,z1>> *)
KS(w) == <<Len(w), Len(w[1]), Len(w[1][1])>>
Pd(w) == <<Len(w) \div 2, Len(w[1]) \div 2, Len(w[1][1]) \div 2>>
ElNo(g, i, j, k) == (k * g[2] + j) * g[1] + i          \* 0-based element number
NelG(g) == g[1] * g[2] * g[3]
Fits(g, w) == \A a \in 1..3 : Pd(w)[a] <= g[a]

(* operational: stage-wise padded value; x is the field as a sequence over element numbers *)
PaddedOp(g, w, md, x, qa, qb, qc) ==
  LET P == Pd(w)
      ez == PadAxis(g[3], P[3], md[5], md[6])[qc + 1]
      ey == PadAxis(g[2], P[2], md[3], md[4])[qb + 1]
      ex == PadAxis(g[1], P[1], md[1], md[2])[qa + 1]
  IN IF Variant = "x_override_last"
       THEN (IF IsConst(ex) THEN ConstVal(ex) ELSE IF IsConst(ez) THEN ConstVal(ez) ELSE IF IsConst(ey) THEN ConstVal(ey) ELSE x[ElNo(g, ex, ey, ez) + 1])
     ELSE IF IsConst(ez) THEN ConstVal(ez)             \* z overrides are applied last, so they win
     ELSE IF IsConst(ey) THEN ConstVal(ey)
     ELSE IF IsConst(ex) THEN ConstVal(ex)
     ELSE x[ElNo(g, ex, ey, ez) + 1]
(* declarative: extend along x, the result along y, then along z *)
PaddedDecl(g, w, md, x, qa, qb, qc) ==
  LET P == Pd(w)
      ez == Ext(g[3], P[3], md[5], md[6], qc)
      ey == Ext(g[2], P[2], md[3], md[4], qb)
      ex == Ext(g[1], P[1], md[1], md[2], qa)
  IN IF IsConst(ez) THEN ConstVal(ez) ELSE IF IsConst(ey) THEN ConstVal(ey) ELSE IF IsConst(ex) THEN ConstVal(ex)
     ELSE x[ElNo(g, ex, ey, ez) + 1]

RECURSIVE SumSetI(_, _)
SumSetI(S, f) == IF S = {} THEN 0 ELSE LET s == CHOOSE t \in S : TRUE IN f[s] + SumSetI(S \ {s}, f)   \* f: a function on S

(* y at element (i,j,k): valid-mode convolution = sum over window positions *)
Conv(g, w, md, x, i, j, k, padded(_, _, _, _, _, _, _)) ==
  LET K == KS(w)
      W == {<<a, b, c>> : a \in 0..K[1] - 1, b \in 0..K[2] - 1, c \in 0..K[3] - 1}
  IN SumSetI(W, [o \in W |-> w[K[1] - o[1]][K[2] - o[2]][K[3] - o[3]] * padded(g, w, md, x, i + o[1], j + o[2], k + o[3])])
FilterOp(g, w, md, x) == Tup([e \in 1..NelG(g) |->
     LET i == (e - 1) % g[1]  j == ((e - 1) \div g[1]) % g[2]  k == (e - 1) \div (g[1] * g[2]) IN Conv(g, w, md, x, i, j, k, PaddedOp)])
FilterDecl(g, w, md, x) == Tup([e \in 1..NelG(g) |->
     LET i == (e - 1) % g[1]  j == ((e - 1) \div g[1]) % g[2]  k == (e - 1) \div (g[1] * g[2]) IN Conv(g, w, md, x, i, j, k, PaddedDecl)])

Unit(n, e) == Tup([i \in 1..n |-> IF i = e THEN 1 ELSE 0])
ZeroF(n) == Tup([i \in 1..n |-> 0])
KIdx(w) == {<<a, b, c>> : a \in 1..Len(w), b \in 1..Len(w[1]), c \in 1..Len(w[1][1])}
KSum(w) == SumSetI(KIdx(w), [o \in KIdx(w) |-> w[o[1]][o[2]][o[3]]])
KNonNeg(w) == \A a \in 1..Len(w), b \in 1..Len(w[1]), c \in 1..Len(w[1][1]) : w[a][b][c] >= 0
KMirrorSym(w) == \A a \in 1..Len(w), b \in 1..Len(w[1]), c \in 1..Len(w[1][1]) :
                    /\ w[a][b][c] = w[Len(w) + 1 - a][b][c] /\ w[a][b][c] = w[a][Len(w[1]) + 1 - b][c]
                    /\ w[a][b][c] = w[a][b][Len(w[1][1]) + 1 - c]
NoConst(md) == \A a \in 1..6 : md[a] \in {"symmetric", "edge", "wrap"}
AllSym(md) == \A a \in 1..6 : md[a] = "symmetric"
SumSeqI(s) == SumSetI(1..Len(s), s)

VARIABLES grid, ker, modes, phase
vars == <<grid, ker, modes, phase>>
Init == grid \in Grids /\ ker \in Kernels /\ Fits(grid, ker) /\ modes = <<>> /\ phase = "pick"
Pick == phase = "pick" /\ phase' = "eval" /\ modes' \in ModeSets /\ UNCHANGED <<grid, ker>>
Done == phase = "eval" /\ phase' = "done" /\ UNCHANGED <<grid, ker, modes>>
Next == Pick \/ Done
Spec == Init /\ [][Next]_vars

(* the filter is affine in the field: it is determined by its value on the zero field and the unit fields *)
Y0 == FilterOp(grid, ker, modes, ZeroF(NelG(grid)))
Col(e) == FilterOp(grid, ker, modes, Unit(NelG(grid), e))

C09conv ==
  phase = "eval" =>
    LET n == NelG(grid) IN
    \* bind the computed columns once (a singleton-set binding is evaluated eagerly by TLC)
    \A cols \in {Tup([e \in 1..n |-> Col(e)])} :
    /\ Y0 = FilterDecl(grid, ker, modes, ZeroF(n))
    /\ \A e \in 1..n : cols[e] = FilterDecl(grid, ker, modes, Unit(n, e))
    \* non-negative kernel, no constant padding: constants are preserved (up to the kernel sum) and outputs stay in range
    /\ (KNonNeg(ker) /\ NoConst(modes)) =>
          /\ \A i \in 1..n : SumSetI(1..n, [e \in 1..n |-> cols[e][i]]) = KSum(ker)     \* row sums: constant c -> KSum * c
          /\ \A i \in 1..n, e \in 1..n : cols[e][i] >= 0                                 \* convex combination of inputs
    \* symmetric padding everywhere with a mirror-symmetric kernel preserves the total
    /\ (AllSym(modes) /\ KMirrorSym(ker)) => \A e \in 1..n : SumSeqI(cols[e]) = KSum(ker)

Emit == phase = "done" =>
   PrintT(<<"CONV", ToJson([grid |-> grid, kernel |-> ker, modes |-> modes, y0 |-> Y0,
                            cols |-> Tup([e \in 1..NelG(grid) |-> Col(e)])])>>)

-----------------------------------------------------------------------------
(* ---- cone kernel structure: which element pairs interact for a radius with r^2 = R2 (rational), element sizes sz ---- *)
Dist2(o, sz) == QAdd(QAdd(QMul(QMul(sz[1], sz[1]), QI(o[1] * o[1])), QMul(QMul(sz[2], sz[2]), QI(o[2] * o[2]))),
                     QMul(QMul(sz[3], sz[3]), QI(o[3] * o[3])))
Support(g, R2, sz) ==
  {<<e, f, Dist2(<<(f % g[1]) - (e % g[1]), ((f \div g[1]) % g[2]) - ((e \div g[1]) % g[2]),
                   (f \div (g[1] * g[2])) - (e \div (g[1] * g[2]))>>, sz)>> :
       e \in 0..NelG(g) - 1, f \in 0..NelG(g) - 1}
InRadius(t, R2) == QLess(t[3], R2)
(* every element is within its own radius (r > 0), the relation is symmetric *)
SupportProps(g, R2, sz) ==
  LET S == {t \in Support(g, R2, sz) : InRadius(t, R2)} IN
  /\ \A e \in 0..NelG(g) - 1 : \E t \in S : t[1] = e /\ t[2] = e
  /\ \A t \in S : \E u \in S : u[1] = t[2] /\ u[2] = t[1] /\ u[3] = t[3]
(* case enumeration for the support structure: ker holds r^2, modes holds the element sizes *)
CONSTANTS Radii2, SizeSets
InitSupp == grid \in Grids /\ ker \in Radii2 /\ modes \in SizeSets /\ phase = "supp"
NextSupp == phase = "supp" /\ phase' = "suppdone" /\ UNCHANGED <<grid, ker, modes>>
SpecSupp == InitSupp /\ [][NextSupp]_vars
SuppOK == phase = "supp" => SupportProps(grid, ker, modes)
EmitSupp == phase = "suppdone" =>
   PrintT(<<"SUPP", ToJson([grid |-> grid, r2 |-> ker, size |-> modes,
                            pairs |-> {t \in Support(grid, ker, modes) : InRadius(t, ker)}])>>)
=============================================================================
