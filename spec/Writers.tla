------------------------------- MODULE Writers -------------------------------
(***************************************************************************)
(* WriteToVTI / DomainDefinition.write_to_vti and ScalarToFile of           *)
(* pymoto/modules/io.py and common/domain.py as a state machine over an     *)
(* abstract file system: files maps a file name to its decoded content.     *)
(*   VTI file: [extent, spacing, origin, point, cell] where point / cell    *)
(*   are sequences of arrays [name, ncomp, data].                           *)
(*   log file: [header, rows].                                              *)
(* Operational: classification by size (multiple of the element count =>    *)
(* cell data, else multiple of the node count => point data, else skipped), *)
(* component count, block vectors split along the other axis with indexed   *)
(* names, 2-component point vectors on 2D domains interleaved to 3          *)
(* components, one file per iteration unless overwrite, header once then    *)
(* one row per call.                                                        *)
(***************************************************************************)
EXTENDS Integers, Sequences, FiniteSets, TLC, Json

CONSTANTS Grid,       \* <<nelx, nely, nelz>>
          Vecs,       \* sequence of [tag, kind] ; kinds below
          Overwrite, Depth, LogShapes   \* LogShapes: sequence of [tag, shape] with shape <<>> (scalar), <<n>> or <<r, c>>

Nel == Grid[1] * Grid[2] * (IF Grid[3] = 0 THEN 1 ELSE Grid[3])
NNodes == (Grid[1] + 1) * (Grid[2] + 1) * (Grid[3] + 1)
Dim == IF Grid[3] = 0 THEN 2 ELSE 3
Tup(f) == SubSeq(f, 1, Len(f))

ShapeOf(kind) ==
  CASE kind = "cell1" -> <<Nel>> [] kind = "cell3" -> <<3 * Nel>> [] kind = "point1" -> <<NNodes>>
    [] kind = "point2" -> <<2 * NNodes>> [] kind = "point3" -> <<3 * NNodes>>
    [] kind = "cellblock" -> <<2, Nel>> [] kind = "cellblockT" -> <<Nel, 3>> [] kind = "pointblock" -> <<2, 2 * NNodes>>
    [] kind = "pointblockT" -> <<2 * NNodes, 3>> [] kind = "point3blockT" -> <<3 * NNodes, 2>>
    [] kind = "neither" -> <<Nel * NNodes + 1>>
SizeOf(sh) == IF Len(sh) = 1 THEN sh[1] ELSE sh[1] * sh[2]
(* deterministic small-integer data (exact in single precision): entry idx (0-based, row major) of vector v at iteration it *)
Datum(it, v, idx) == 100 * v + 10 * it + (idx % 7) - 3

Classify(size) == IF size % Nel = 0 THEN "cell" ELSE IF size % NNodes = 0 THEN "point" ELSE "skip"
(* the property is stated for domains / vectors where node-sized data is not also a multiple of the element count *)
Admissible == \A v \in 1..Len(Vecs) : LET sh == ShapeOf(Vecs[v].kind) IN
                 (Vecs[v].kind \in {"point1", "point2", "point3", "pointblock", "pointblockT", "point3blockT"}) => SizeOf(sh) % Nel # 0

Arrays(it, v, cls) ==
  LET sh == ShapeOf(Vecs[v].kind)
      n == IF cls = "cell" THEN Nel ELSE NNodes
      tag == Vecs[v].tag IN
  IF Len(sh) = 1 THEN
     LET nc == sh[1] \div n
         raw == Tup([i \in 1..sh[1] |-> Datum(it, v, i - 1)])
         pad == cls = "point" /\ nc = 2 /\ Dim = 2 IN
     <<[name |-> tag, ncomp |-> IF pad THEN 3 ELSE nc,
        data |-> IF pad THEN Tup([i \in 1..(3 * n) |-> IF (i - 1) % 3 = 2 THEN 0 ELSE raw[2 * ((i - 1) \div 3) + ((i - 1) % 3) + 1]]) ELSE raw]>>
  ELSE
     LET ax == IF sh[1] % n = 0 THEN 1 ELSE 2           \* the axis that carries the element / node data
         nc == sh[ax] \div n
         nv == sh[3 - ax]
         pad == cls = "point" /\ nc = 2 /\ Dim = 2
         slice(j) == Tup([i \in 1..sh[ax] |-> IF ax = 2 THEN Datum(it, v, (j - 1) * sh[2] + (i - 1)) ELSE Datum(it, v, (i - 1) * sh[2] + (j - 1))]) IN
     Tup([j \in 1..nv |->
        [name |-> IF nv > 1 THEN tag \o "(" \o ToString(j - 1) \o ")" ELSE tag, ncomp |-> IF pad THEN 3 ELSE nc,
         data |-> IF pad THEN Tup([i \in 1..(3 * n) |-> IF (i - 1) % 3 = 2 THEN 0 ELSE slice(j)[2 * ((i - 1) \div 3) + ((i - 1) % 3) + 1]]) ELSE slice(j)]])

RECURSIVE Gather(_, _, _)
Gather(it, v, cls) == IF v > Len(Vecs) THEN <<>>
                      ELSE (IF Classify(SizeOf(ShapeOf(Vecs[v].kind))) = cls THEN Arrays(it, v, cls) ELSE <<>>) \o Gather(it, v + 1, cls)
Pad4(n) == IF n < 10 THEN "000" \o ToString(n) ELSE IF n < 100 THEN "00" \o ToString(n) ELSE "0" \o ToString(n)
VtiName(it) == IF Overwrite THEN "out.vti" ELSE "out." \o Pad4(it) \o ".vti"
VtiContent(it) == [extent |-> <<0, Grid[1], 0, Grid[2], 0, Grid[3]>>, point |-> Gather(it, 1, "point"), cell |-> Gather(it, 1, "cell")]

(* ScalarToFile: columns = Iteration, then one per scalar or per entry (tag[i] / tag[i, j]) *)
IdxName(sh, k) == IF Len(sh) = 1 THEN "[" \o ToString(k) \o "]"
                  ELSE "[" \o ToString(k \div sh[2]) \o ", " \o ToString(k % sh[2]) \o "]"
RECURSIVE Header(_)
Header(s) == IF s > Len(LogShapes) THEN <<>>
             ELSE LET sh == LogShapes[s].shape  n == IF sh = <<>> THEN 1 ELSE SizeOf(sh) IN
                  (IF n > 1 THEN Tup([k \in 1..n |-> LogShapes[s].tag \o IdxName(sh, k - 1)]) ELSE <<LogShapes[s].tag>>) \o Header(s + 1)
RECURSIVE RowVals(_, _)
RowVals(it, s) == IF s > Len(LogShapes) THEN <<>>
                  ELSE LET sh == LogShapes[s].shape  n == IF sh = <<>> THEN 1 ELSE SizeOf(sh) IN
                       Tup([k \in 1..n |-> Datum(it, s, k - 1)]) \o RowVals(it, s + 1)

VARIABLES iterV, iterL, files, last, hist
vars == <<iterV, iterL, files, last, hist>>
Init == iterV = 0 /\ iterL = 0 /\ files = [f \in {} |-> <<>>] /\ last = "Init" /\ hist = <<>>
Put(fs, name, content) == [f \in (DOMAIN fs) \cup {name} |-> IF f = name THEN content ELSE fs[f]]
AnyWritten(it) == Gather(it, 1, "point") # <<>> \/ Gather(it, 1, "cell") # <<>>
VTIResponse ==
  /\ files' = IF AnyWritten(iterV) THEN Put(files, VtiName(iterV), VtiContent(iterV)) ELSE files    \* nothing to write: the file is skipped
  /\ iterV' = iterV + 1 /\ UNCHANGED iterL
  /\ last' = "VTI" /\ hist' = Append(hist, [op |-> "VTI", files |-> files'])
LogResponse ==
  /\ files' = Put(files, "log",
                  IF iterL = 0 THEN [header |-> <<"Iteration">> \o Header(1), rows |-> <<(<<0>> \o RowVals(0, 1))>>]
                  ELSE [header |-> files["log"].header, rows |-> Append(files["log"].rows, <<iterL>> \o RowVals(iterL, 1))])
  /\ iterL' = iterL + 1 /\ UNCHANGED iterV
  /\ last' = "LOG" /\ hist' = Append(hist, [op |-> "LOG", files |-> files'])
Finish == Len(hist) = Depth /\ last # "Finish" /\ last' = "Finish" /\ UNCHANGED <<iterV, iterL, files, hist>>
Next == Finish \/ (Len(hist) < Depth /\ (VTIResponse \/ LogResponse))
Spec == Init /\ [][Next]_vars

(* C20: one file per iteration (or a single one when overwriting), the log has one header and one row per call *)
FilesOK ==
  /\ (~Overwrite /\ AnyWritten(0)) => Cardinality({f \in DOMAIN files : f # "log"}) = iterV
  /\ Overwrite => Cardinality({f \in DOMAIN files : f # "log"}) <= 1
  /\ "log" \in DOMAIN files => (Len(files["log"].rows) = iterL /\ \A r \in 1..iterL : files["log"].rows[r][1] = r - 1
                                                              /\ \A r2 \in 1..iterL : Len(files["log"].rows[r2]) = Len(files["log"].header))
ArraysOK ==   \* element-sized vectors are cell data, node-sized vectors point data, with the right number of values
  \A f \in (DOMAIN files) \ {"log"} :
     /\ \A a \in 1..Len(files[f].cell) : Len(files[f].cell[a].data) = files[f].cell[a].ncomp * Nel
     /\ \A a \in 1..Len(files[f].point) : Len(files[f].point[a].data) = files[f].point[a].ncomp * NNodes
Emit == last = "Finish" => PrintT(<<"BEH", ToJson([steps |-> hist])>>)
=============================================================================
