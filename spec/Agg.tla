-------------------------------- MODULE Agg --------------------------------
(***************************************************************************)
(* pymoto/modules/aggregation.py: AggActiveSet (which entries take part)    *)
(* and AggScaling (scale factor recurrence), in exact rational arithmetic.  *)
(*                                                                          *)
(* ActiveSet - operational: band selection on the normalised values, then   *)
(* removal of the first floor(n*lower_amt) and the last                     *)
(* floor(n*(1-upper_amt)) entries of *a* sorted order (ties in any order,   *)
(* as argsort may return them).  Declarative: the admissible masks are the  *)
(* band minus a lowest set of that size and a highest set of that size.     *)
(* Scaling - s_k = d*s_(k-1) + (1-d)*true/approx ; undamped => output =     *)
(* true extreme.                                                            *)
(***************************************************************************)
EXTENDS Num, FiniteSets, TLC, Json

CONSTANTS MaxLen, Vals, Fracs, Variant,
          Pool, Damps, Depth    \* scaling histories: pool of positive integer vectors, damping factors

Floor(q) == q[1] \div q[2]         \* q >= 0
Idx(x) == 1..Len(x)
MinOf(x) == CHOOSE v \in {x[i] : i \in Idx(x)} : \A i \in Idx(x) : v <= x[i]
MaxOf(x) == CHOOSE v \in {x[i] : i \in Idx(x)} : \A i \in Idx(x) : v >= x[i]

(* band on normalised values (x - xmin)/(xmax - xmin) *)
Band(x, p) ==
  LET lo == MinOf(x)  hi == MaxOf(x) IN
  {i \in Idx(x) : LET rel == Q(x[i] - lo, hi - lo) IN
       /\ (QLess(QZero, p.lower_rel) => QLeq(p.lower_rel, rel))
       /\ (QLess(p.upper_rel, QOne) => QLeq(rel, p.upper_rel))}
NLow(x, p) == IF QLess(QZero, p.lower_amt) THEN Floor(QMul(QI(Len(x)), p.lower_amt)) ELSE 0
NUp(x, p) == IF QLess(p.upper_amt, QOne) THEN Floor(QMul(QI(Len(x)), QSub(QOne, p.upper_amt))) ELSE 0

(* operational: all index orders argsort may return *)
SortedPerms(x) == {f \in [Idx(x) -> Idx(x)] : /\ \A i, j \in Idx(x) : i # j => f[i] # f[j]
                                              /\ \A i, j \in Idx(x) : i < j => x[f[i]] <= x[f[j]]}
OpMasks(x, p) ==
  IF MinOf(x) = MaxOf(x) THEN {Idx(x)}            \* all equal: everything stays (Ellipsis)
  ELSE {(Band(x, p) \ {f[i] : i \in 1..NLow(x, p)})
          \ (IF NUp(x, p) = 0 /\ Variant # "minus_zero_slice" THEN {} ELSE
             IF NUp(x, p) = 0 THEN Idx(x) ELSE {f[i] : i \in (Len(x) - NUp(x, p) + 1)..Len(x)}) : f \in SortedPerms(x)}

(* declarative *)
LowestSets(x, k) == {L \in SUBSET Idx(x) : Cardinality(L) = k /\ \A i \in L, j \in Idx(x) \ L : x[i] <= x[j]}
HighestSets(x, k) == {U \in SUBSET Idx(x) : Cardinality(U) = k /\ \A i \in U, j \in Idx(x) \ U : x[i] >= x[j]}
AdmMasks(x, p) ==
  IF MinOf(x) = MaxOf(x) THEN {Idx(x)}
  ELSE {(Band(x, p) \ LU[1]) \ LU[2] :
           LU \in {P \in LowestSets(x, NLow(x, p)) \X HighestSets(x, NUp(x, p)) : P[1] \cap P[2] = {}}}   \* distinct entries

-----------------------------------------------------------------------------
(* ---- case enumeration for the active set ---- *)
VARIABLES mode, x, par, sf, k, hist, done
vars == <<mode, x, par, sf, k, hist, done>>

RECURSIVE SeqsOf(_)
SeqsOf(n) == IF n = 0 THEN {<<>>} ELSE {Append(s, v) : s \in SeqsOf(n - 1), v \in Vals}
Params == {[lower_rel |-> a, upper_rel |-> b, lower_amt |-> c, upper_amt |-> d] :
             a \in Fracs, b \in Fracs, c \in Fracs, d \in Fracs}
ValidPar(p) == QLess(p.lower_rel, p.upper_rel) /\ QLess(p.lower_amt, p.upper_amt)

InitSet ==
  /\ mode = "pick" /\ x = <<>> /\ par = <<>>
  /\ sf = <<>> /\ k = 0 /\ hist = <<>> /\ done = FALSE
(* the case is chosen in a step (not in Init) so that TLC's workers evaluate the cases in parallel *)
Pick ==
  /\ mode = "pick" /\ mode' = "set"
  /\ \E n \in 1..MaxLen : x' \in SeqsOf(n)
  /\ par' \in {p \in Params : ValidPar(p)}
  /\ UNCHANGED <<sf, k, hist, done>>

(* a fraction that rounds to zero entries removes nothing; the masks the code can produce are exactly the admissible ones *)
ActiveSetSound == mode = "set" => OpMasks(x, par) = AdmMasks(x, par)
ZeroFractionRemovesNothing ==
  mode = "set" => ((NLow(x, par) = 0 /\ NUp(x, par) = 0 /\ MinOf(x) # MaxOf(x)) => AdmMasks(x, par) = {Band(x, par)})
EmitSet == (mode = "set" /\ done) =>
   PrintT(<<"SET", ToJson([x |-> x, par |-> par, masks |-> AdmMasks(x, par)])>>)

-----------------------------------------------------------------------------
(* ---- scaling histories: aggregation = sum (PNorm with p = 1) over the entries of x ---- *)
RECURSIVE SumI(_)
SumI(s) == IF s = <<>> THEN 0 ELSE s[1] + SumI(Tail(s))

InitScale ==
  /\ mode \in {"min", "max"}
  /\ x = <<>> /\ par \in Damps
  /\ sf = <<>> /\ k = 0 /\ hist = <<>> /\ done = FALSE

Resp(i) ==
  /\ mode \in {"min", "max"} /\ ~done /\ k < Depth
  /\ LET v == Pool[i]
         true == IF mode = "min" THEN MinOf(v) ELSE MaxOf(v)
         approx == SumI(v)
         scale == Q(true, approx)
         s2 == IF sf = <<>> THEN scale ELSE QAdd(QMul(par, sf), QMul(QSub(QOne, par), scale))
     IN /\ sf' = s2
        /\ hist' = Append(hist, [x |-> v, sf |-> s2, out |-> QMul(s2, QI(approx)), true |-> true])
  /\ k' = k + 1
  /\ UNCHANGED <<mode, x, par, done>>

Close == ~done /\ (mode = "set" \/ (mode \in {"min", "max"} /\ k = Depth)) /\ done' = TRUE /\ UNCHANGED <<mode, x, par, sf, k, hist>>
Next == Pick \/ Close \/ \E i \in 1..Len(Pool) : Resp(i)
SpecSet == InitSet /\ [][Next]_vars
SpecScale == InitScale /\ [][Next]_vars

UndampedExact == (mode \in {"min", "max"} /\ par = QZero /\ hist # <<>>) =>
                    hist[Len(hist)].out = QI(hist[Len(hist)].true)
Recurrence == [][(mode \in {"min", "max"} /\ k' = k + 1 /\ sf # <<>>) =>
                    sf' = QAdd(QMul(par, sf), QMul(QSub(QOne, par), Q(hist'[k'].true, SumI(hist'[k'].x))))]_vars
EmitScale == (mode \in {"min", "max"} /\ done) => PrintT(<<"SCALE", ToJson([which |-> mode, damping |-> par, steps |-> hist])>>)
=============================================================================
