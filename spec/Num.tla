-------------------------------- MODULE Num --------------------------------
(***************************************************************************)
(* Exact arithmetic for the specifications: rationals <<n, d>> (d > 0,      *)
(* gcd-normalised, so equal values are structurally equal), Gaussian        *)
(* rationals <<re, im>>, vectors (sequences) of them, and rank / span over  *)
(* small sets of vectors in C^3 by minors.  TLC integers are 32-bit and     *)
(* overflow raises an error (never wraps), so data is kept small.           *)
(***************************************************************************)
EXTENDS Integers, Sequences, FiniteSets

Abs(x) == IF x < 0 THEN -x ELSE x
RECURSIVE GCD(_, _)
GCD(a, b) == IF b = 0 THEN a ELSE GCD(b, a % b)        \* a, b >= 0

Q(n, d) == LET g == GCD(Abs(n), Abs(d))  s == IF d < 0 THEN -1 ELSE 1
           IN IF n = 0 THEN <<0, 1>> ELSE <<(s * n) \div g, (s * d) \div g>>
QI(n) == <<n, 1>>
QZero == <<0, 1>>
QOne == <<1, 1>>
QAdd(a, b) == Q(a[1] * b[2] + b[1] * a[2], a[2] * b[2])
QNeg(a) == <<-a[1], a[2]>>
QSub(a, b) == QAdd(a, QNeg(b))
QMul(a, b) == Q(a[1] * b[1], a[2] * b[2])
QInv(a) == Q(a[2], a[1])
QDiv(a, b) == QMul(a, QInv(b))
QIsZero(a) == a[1] = 0
QLess(a, b) == a[1] * b[2] < b[1] * a[2]
QLeq(a, b) == a[1] * b[2] <= b[1] * a[2]
QMin(a, b) == IF QLeq(a, b) THEN a ELSE b
QMax(a, b) == IF QLeq(a, b) THEN b ELSE a

(* Gaussian rationals *)
C(re, im) == <<re, im>>
CI(re, im) == <<QI(re), QI(im)>>          \* from integers
CZero == <<QZero, QZero>>
COne == <<QOne, QZero>>
CAdd(a, b) == <<QAdd(a[1], b[1]), QAdd(a[2], b[2])>>
CNeg(a) == <<QNeg(a[1]), QNeg(a[2])>>
CSub(a, b) == CAdd(a, CNeg(b))
CMul(a, b) == <<QSub(QMul(a[1], b[1]), QMul(a[2], b[2])), QAdd(QMul(a[1], b[2]), QMul(a[2], b[1]))>>
CConj(a) == <<a[1], QNeg(a[2])>>
CNorm2(a) == QAdd(QMul(a[1], a[1]), QMul(a[2], a[2]))
CInv(a) == LET n == CNorm2(a) IN <<QDiv(a[1], n), QDiv(QNeg(a[2]), n)>>
CDiv(a, b) == CMul(a, CInv(b))
CIsZero(a) == QIsZero(a[1]) /\ QIsZero(a[2])
CIsReal(a) == QIsZero(a[2])

(* vectors of Gaussian rationals *)
Tup(f) == SubSeq(f, 1, Len(f))
VZero(n) == Tup([i \in 1..n |-> CZero])
VAdd(a, b) == Tup([i \in 1..Len(a) |-> CAdd(a[i], b[i])])
VSub(a, b) == Tup([i \in 1..Len(a) |-> CSub(a[i], b[i])])
VScale(c, a) == Tup([i \in 1..Len(a) |-> CMul(c, a[i])])
VConj(a) == Tup([i \in 1..Len(a) |-> CConj(a[i])])
VIsZero(a) == \A i \in 1..Len(a) : CIsZero(a[i])
VIsReal(a) == \A i \in 1..Len(a) : CIsReal(a[i])
RECURSIVE CSum(_)
CSum(s) == IF s = <<>> THEN CZero ELSE CAdd(s[1], CSum(Tail(s)))
VDot(a, b) == CSum(Tup([i \in 1..Len(a) |-> CMul(a[i], b[i])]))      \* bilinear a . b
VDotC(a, b) == VDot(a, VConj(b))                                      \* a . conj(b)
VFromInt(v) == Tup([i \in 1..Len(v) |-> CI(v[i][1], v[i][2])])          \* from <<re, im>> integer pairs

(* ---- Gaussian integers <<re, im>> and vectors of them (fraction-free arithmetic, fast in TLC) ---- *)
GAdd(a, b) == <<a[1] + b[1], a[2] + b[2]>>
GSub(a, b) == <<a[1] - b[1], a[2] - b[2]>>
GMul(a, b) == <<a[1] * b[1] - a[2] * b[2], a[1] * b[2] + a[2] * b[1]>>
GConj(a) == <<a[1], -a[2]>>
GIsZero(a) == a[1] = 0 /\ a[2] = 0
GZero == <<0, 0>>
GVSub(a, b) == Tup([i \in 1..Len(a) |-> GSub(a[i], b[i])])
GVScale(c, a) == Tup([i \in 1..Len(a) |-> GMul(c, a[i])])
GVConj(a) == Tup([i \in 1..Len(a) |-> GConj(a[i])])
GVIsZero(a) == \A i \in 1..Len(a) : GIsZero(a[i])
GVIsReal(a) == \A i \in 1..Len(a) : a[i][2] = 0
RECURSIVE GSum(_)
GSum(s) == IF s = <<>> THEN GZero ELSE GAdd(s[1], GSum(Tail(s)))
GVDotC(a, b) == GSum(Tup([i \in 1..Len(a) |-> GMul(a[i], GConj(b[i]))]))     \* a . conj(b)
RECURSIVE GCDSeq(_)
GCDSeq(s) == IF s = <<>> THEN 0 ELSE GCD(Abs(s[1][1]), GCD(Abs(s[1][2]), GCDSeq(Tail(s))))
(* divide by the (positive integer) content: direction, zero-ness and real-valuedness are kept *)
GPrim(a) == LET g == GCDSeq(a) IN IF g <= 1 THEN a ELSE Tup([i \in 1..Len(a) |-> <<a[i][1] \div g, a[i][2] \div g>>])

(* rank of a finite set of vectors in C^3 (Gaussian integers), exact, by minors against a fixed   *)
(* independent subset                                                                              *)
GDet2(a, b, i, j) == GSub(GMul(a[i], b[j]), GMul(a[j], b[i]))
GDet3(a, b, c) == GAdd(GSub(GMul(a[1], GDet2(b, c, 2, 3)), GMul(a[2], GDet2(b, c, 1, 3))), GMul(a[3], GDet2(b, c, 1, 2)))
Indep2(a, b) == \E i, j \in 1..3 : i < j /\ ~GIsZero(GDet2(a, b, i, j))
Rank3(S) ==
  IF \A v \in S : GVIsZero(v) THEN 0
  ELSE LET a == CHOOSE v \in S : ~GVIsZero(v) IN
       IF \A v \in S : ~Indep2(a, v) THEN 1
       ELSE LET b == CHOOSE v \in S : Indep2(a, v) IN
            IF \E c \in S : ~GIsZero(GDet3(a, b, c)) THEN 3 ELSE 2
InSpan3(v, S) == Rank3(S \cup {v}) = Rank3(S)
=============================================================================
