---------------------------- MODULE TraceNetwork ----------------------------
(***************************************************************************)
(* Trace validation of the Module / Network protocol (Network.tla) on real  *)
(* library networks: every call of a module's response(), sensitivity() and *)
(* reset() inside a running optimisation / finite-difference check is       *)
(* recorded (module index, whether _sensitivity was invoked, which signals  *)
(* hold a sensitivity afterwards) and replayed against the order and skip   *)
(* rules of the specification:                                              *)
(*   response in list order, sensitivity in reverse list order, a module is *)
(*   invoked iff one of its outputs holds a sensitivity, an invoked module  *)
(*   can only create sensitivities on its own inputs, a skipped module      *)
(*   changes nothing, reset clears the module's outputs and inputs.         *)
(***************************************************************************)
EXTENDS Integers, Sequences, FiniteSets, TLC, Json, IOUtils
Traces == JsonDeserialize(IOEnv.TRACE_FILE)
ASSUME \A t \in 1..Len(Traces) : TLCSet(t, 0)
VARIABLES tid, l, has, pos, phase
tvars == <<tid, l, has, pos, phase>>
T == Traces[tid]
NM == Len(T.mods)
SetOf(s) == {s[i] : i \in 1..Len(s)}

TraceInit == tid \in 1..Len(Traces) /\ l = 1 /\ has = {} /\ pos = 0 /\ phase = "idle"

Event(e) ==
  LET m == IF e.k > 0 THEN T.mods[e.k] ELSE [ins |-> <<>>, outs |-> <<>>]
      after == SetOf(e.has) IN
  CASE e.op = "Fwd" ->      \* list order; a response never touches sensitivities
         /\ (IF phase = "fwd" THEN e.k = pos + 1 ELSE e.k \in 1..NM)     \* a sweep may start at the first module of a sub-network
         /\ after = has
         /\ pos' = e.k /\ phase' = (IF e.k = NM THEN "idle" ELSE "fwd") /\ has' = after
    [] e.op = "Seed" ->     \* the caller assigns output sensitivities (any time between sweeps)
         /\ phase \in {"idle"}
         /\ has' = after /\ pos' = 0 /\ phase' = "idle"
    [] e.op = "Bwd" ->      \* reverse list order with the skip rule
         /\ (IF phase = "bwd" THEN e.k = pos - 1 ELSE e.k = NM)
         /\ e.called = (\E o \in SetOf(m.outs) : o \in has)
         /\ (~e.called => after = has)
         /\ (e.called => (has \subseteq after /\ (after \ has) \subseteq SetOf(m.ins)))
         /\ pos' = e.k /\ phase' = (IF e.k = 1 THEN "idle" ELSE "bwd") /\ has' = after
    [] e.op = "Reset" ->    \* reverse list order; outputs and inputs of the module are cleared
         /\ (IF phase = "reset" THEN e.k = pos - 1 ELSE e.k = NM)
         /\ after = has \ (SetOf(m.outs) \cup SetOf(m.ins))
         /\ pos' = e.k /\ phase' = (IF e.k = 1 THEN "idle" ELSE "reset") /\ has' = after
    [] OTHER -> FALSE

TraceNext == l <= Len(T.events) /\ Event(T.events[l]) /\ l' = l + 1 /\ UNCHANGED tid
TraceSpec == TraceInit /\ [][TraceNext]_tvars
Progress == TLCSet(tid, IF TLCGet(tid) < l THEN l ELSE TLCGet(tid))
Report == \A t \in 1..Len(Traces) : PrintT(<<"TRACE", Traces[t].tid, TLCGet(t), Len(Traces[t].events) + 1>>)
=============================================================================
