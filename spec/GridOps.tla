------------------------------ MODULE GridOps ------------------------------
(***************************************************************************)
(* Structured grid of pymoto/common/domain.py (DomainDefinition):           *)
(* element / node numbering, connectivity, dof connectivity, node           *)
(* positions and the (bi/tri)linear shape functions with their              *)
(* derivatives, in exact rational arithmetic.                               *)
(*                                                                          *)
(* Operational part: the index formulas as the code computes them.          *)
(* Declarative part: C13 (bijections, corner sets in documented local       *)
(* order, per-dof expansion, positions, partition of unity, Kronecker       *)
(* property, derivative = exact difference quotient).                       *)
(***************************************************************************)
EXTENDS Num, TLC, Json, FiniteSets

(* ---- operational: a grid is a record [nx, ny, nz] ; nz = 0 means 2D ---- *)
Dim(g) == IF g.nz = 0 THEN 2 ELSE 3
NZ1(g) == IF g.nz = 0 THEN 1 ELSE g.nz
Nel(g) == g.nx * g.ny * NZ1(g)
NNodes(g) == (g.nx + 1) * (g.ny + 1) * (g.nz + 1)
ElemNodes(g) == IF Dim(g) = 2 THEN 4 ELSE 8
ElemNo(g, i, j, k) == (k * g.ny + j) * g.nx + i
NodeNo(g, i, j, k) == (k * (g.ny + 1) + j) * (g.nx + 1) + i
NodeIdx(g, n) == <<n % (g.nx + 1), (n \div (g.nx + 1)) % (g.ny + 1), n \div ((g.nx + 1) * (g.ny + 1))>>
(* documented local node order: x fastest, then y, then z; entries are -1 / +1 *)
CONSTANT Variant
Numbering(g) == IF Dim(g) = 2
                THEN IF Variant = "local_order_swapped" THEN <<(<<-1, -1, 0>>), (<<-1, 1, 0>>), (<<1, -1, 0>>), (<<1, 1, 0>>)>>
                     ELSE <<(<<-1, -1, 0>>), (<<1, -1, 0>>), (<<-1, 1, 0>>), (<<1, 1, 0>>)>>
                ELSE <<(<<-1, -1, -1>>), (<<1, -1, -1>>), (<<-1, 1, -1>>), (<<1, 1, -1>>),
                       (<<-1, -1, 1>>), (<<1, -1, 1>>), (<<-1, 1, 1>>), (<<1, 1, 1>>)>>
Max0(x) == IF x > 0 THEN x ELSE 0
Conn(g, i, j, k) == Tup([a \in 1..ElemNodes(g) |->
                        NodeNo(g, i + Max0(Numbering(g)[a][1]), j + Max0(Numbering(g)[a][2]), k + Max0(Numbering(g)[a][3]))])
DofConn(g, i, j, k, ndof) == Tup([q \in 1..(ElemNodes(g) * ndof) |->
                        Conn(g, i, j, k)[((q - 1) \div ndof) + 1] * ndof + ((q - 1) % ndof)])

ElemIdx(g) == {<<i, j, k>> : i \in 0..g.nx - 1, j \in 0..g.ny - 1, k \in 0..NZ1(g) - 1}
NodeIdxSet(g) == {<<i, j, k>> : i \in 0..g.nx, j \in 0..g.ny, k \in 0..g.nz}

(* shape functions at the lattice point t (t[d] in -2..2 stands for the coordinate t[d]/4 * size[d]) *)
ShapeFn(g, a, t) ==
  LET f(d) == Q(2 + Numbering(g)[a][d] * t[d], 4) IN
  IF Dim(g) = 2 THEN QMul(f(1), f(2)) ELSE QMul(QMul(f(1), f(2)), f(3))
(* derivative with respect to coordinate i (sizes are rationals) *)
ShapeDer(g, a, t, i, size) ==
  LET f(d) == IF d = i THEN QDiv(QI(Numbering(g)[a][d]), size[d]) ELSE Q(2 + Numbering(g)[a][d] * t[d], 4) IN
  IF Dim(g) = 2 THEN QMul(f(1), f(2)) ELSE QMul(QMul(f(1), f(2)), f(3))
Lattice(g) == IF Dim(g) = 2 THEN {<<a, b, 0>> : a \in -2..2, b \in -2..2}
              ELSE {<<a, b, c>> : a \in -2..2, b \in -2..2, c \in -2..2}
RECURSIVE QSum(_)
QSum(s) == IF s = <<>> THEN QZero ELSE QAdd(s[1], QSum(Tail(s)))

-----------------------------------------------------------------------------
(* ---- declarative: C13 ---- *)
ElemBijection(g) ==
  /\ \A e \in ElemIdx(g) : ElemNo(g, e[1], e[2], e[3]) \in 0..Nel(g) - 1
  /\ \A e, f \in ElemIdx(g) : e # f => ElemNo(g, e[1], e[2], e[3]) # ElemNo(g, f[1], f[2], f[3])
NodeBijection(g) ==
  /\ \A n \in NodeIdxSet(g) : NodeNo(g, n[1], n[2], n[3]) \in 0..NNodes(g) - 1
  /\ \A n \in NodeIdxSet(g) : NodeIdx(g, NodeNo(g, n[1], n[2], n[3])) = n       \* hence injective
  /\ \A m \in 0..NNodes(g) - 1 : NodeIdx(g, m) \in NodeIdxSet(g)
(* each element's connectivity lists exactly its 2^dim corners, corner (a,b,c) at local position a + 2b + 4c *)
ConnCorners(g) ==
  \A e \in ElemIdx(g) :
     LET cn == Conn(g, e[1], e[2], e[3]) IN
     /\ Len(cn) = ElemNodes(g)
     /\ \A a \in 0..1, b \in 0..1, c \in 0..(IF Dim(g) = 3 THEN 1 ELSE 0) :
          cn[1 + a + 2 * b + 4 * c] = NodeNo(g, e[1] + a, e[2] + b, e[3] + c)
DofExpansion(g, ndof) ==
  \A e \in ElemIdx(g) :
     LET cn == Conn(g, e[1], e[2], e[3])  dc == DofConn(g, e[1], e[2], e[3], ndof) IN
     /\ Len(dc) = ndof * ElemNodes(g)
     /\ \A a \in 1..ElemNodes(g), d \in 0..ndof - 1 : dc[(a - 1) * ndof + d + 1] = cn[a] * ndof + d
ShapeProps(g) ==
  \A t \in Lattice(g) :
     /\ \A a \in 1..ElemNodes(g) : QLeq(QZero, ShapeFn(g, a, t))
     /\ QSum(Tup([a \in 1..ElemNodes(g) |-> ShapeFn(g, a, t)])) = QOne
Kronecker(g) ==
  \A a, b \in 1..ElemNodes(g) :
     LET t == Tup([d \in 1..3 |-> 2 * Numbering(g)[b][d]]) IN     \* the position of node b
     ShapeFn(g, a, t) = IF a = b THEN QOne ELSE QZero
(* the reported derivative is the gradient: equal to the difference quotient over one lattice step (exact, as *)
(* each shape function is affine in every coordinate)                                                        *)
DerIsGradient(g, size) ==
  \A t \in Lattice(g), a \in 1..ElemNodes(g), i \in 1..Dim(g) :
     t[i] < 2 =>
       LET t2 == [t EXCEPT ![i] = t[i] + 1]
           h == QDiv(size[i], QI(4)) IN
       QDiv(QSub(ShapeFn(g, a, t2), ShapeFn(g, a, t)), h) = ShapeDer(g, a, t, i, size)
=============================================================================
