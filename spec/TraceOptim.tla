----------------------------- MODULE TraceOptim -----------------------------
(***************************************************************************)
(* Trace validation for Optim.tla.  Runs of minimize_mma / minimize_oc on   *)
(* generated convex problems are recorded iteration by iteration (design    *)
(* vector, previous designs, asymptotes, admissible interval, returned      *)
(* sub-problem solution, expanded bounds and move limits, states of the     *)
(* variable signals) in fixed point (unit 1e-5, rounded to nearest, so every *)
(* inequality is checked with a slack of one unit per rounded operand).     *)
(* The discrete bookkeeping (xold shifts, iteration counter, expansion of   *)
(* per-signal bounds, write-back to the right signals) is checked exactly.  *)
(***************************************************************************)
EXTENDS Integers, Sequences, FiniteSets, TLC, Json, IOUtils
Traces == JsonDeserialize(IOEnv.TRACE_FILE)
ASSUME \A t \in 1..Len(Traces) : TLCSet(t, 0)
VARIABLES tid, l, xold1, xold2, xprev
tvars == <<tid, l, xold1, xold2, xprev>>
T == Traces[tid]
S == 2                      \* slack in fixed-point units
Leq(a, b) == a <= b + S
AllJ(n, P(_)) == \A j \in 1..n : P(j)

RECURSIVE SumLen(_, _)
SumLen(lens, k) == IF k = 0 THEN 0 ELSE lens[k] + SumLen(lens, k - 1)
SigOf(lens, j) == CHOOSE s \in 1..Len(lens) : SumLen(lens, s - 1) < j /\ j <= SumLen(lens, s)
Expand(spec, lens, n) == IF spec.kind = "scalar" THEN [j \in 1..n |-> spec.v]
                         ELSE IF spec.kind = "persignal" THEN [j \in 1..n |-> spec.v[SigOf(lens, j)]] ELSE spec.v

TraceInit == tid \in 1..Len(Traces) /\ l = 1 /\ xold1 = <<>> /\ xold2 = <<>> /\ xprev = <<>>

MMAEvent(e) ==
  LET n == Len(e.x)
      xmin == Expand(T.xmin, T.lens, n)  xmax == Expand(T.xmax, T.lens, n)  move == Expand(T.move, T.lens, n) IN
  /\ e.iter = l - 1                                                    \* one sub-problem per iteration, counted from 0
  /\ \A j \in 1..n : e.xmin[j] = xmin[j] /\ e.xmax[j] = xmax[j]        \* bounds reach the sub-problem per variable
  /\ \A j \in 1..n :
       /\ e.low[j] < e.alfa[j] + S /\ Leq(e.alfa[j], e.x[j]) /\ Leq(e.x[j], e.beta[j]) /\ e.beta[j] < e.upp[j] + S
       /\ Leq(xmin[j], e.alfa[j]) /\ Leq(e.beta[j], xmax[j])
       /\ Leq((e.beta[j] - e.x[j]) * 100, move[j] * (xmax[j] - xmin[j]) + 300)     \* move is logged in units of 1/100
       /\ Leq((e.x[j] - e.alfa[j]) * 100, move[j] * (xmax[j] - xmin[j]) + 300)
       /\ Leq(e.alfa[j], e.xnew[j]) /\ Leq(e.xnew[j], e.beta[j])       \* the returned point lies in the admissible interval
       /\ e.strict[j]                                                   \* [O] strict enclosure low < alfa, beta < upp evaluated in floating point
  /\ (xold1 # <<>>) => e.xold1 = xold1                                  \* history bookkeeping: xold1 is the previous design, xold2 the one before
  /\ (xold2 # <<>>) => e.xold2 = xold2
  /\ (xprev # <<>>) => e.x = xprev                                      \* the next iteration starts from the returned point
  /\ e.okapprox /\ e.okkkt                                              \* [O] value/gradient reproduced, KKT residual small
  /\ \A s \in 1..Len(T.lens) : \A i \in 1..T.lens[s] : e.sigstates[s][i] = e.x[SumLen(T.lens, s - 1) + i]   \* write-back to the right signals
  /\ xold2' = xold1 /\ xold1' = e.x /\ xprev' = e.xnew

OCEvent(e) ==
  LET n == Len(e.x)
      xmin == Expand(T.xmin, T.lens, n)  xmax == Expand(T.xmax, T.lens, n) IN
  /\ \A j \in 1..n : Leq(xmin[j], e.x[j]) /\ Leq(e.x[j], xmax[j])
  /\ (xprev # <<>>) => \A j \in 1..n : Leq(e.x[j] - xprev[j], T.move.v) /\ Leq(xprev[j] - e.x[j], T.move.v)
  /\ \A s \in 1..Len(T.lens) : \A i \in 1..T.lens[s] : e.sigstates[s][i] = e.x[SumLen(T.lens, s - 1) + i]
  /\ e.okvolume                                                         \* [O] volume within the bisection bracket when reachable
  /\ xprev' = e.x /\ UNCHANGED <<xold1, xold2>>

TraceNext ==
  /\ l <= Len(T.events)
  /\ IF T.kind = "mma" THEN MMAEvent(T.events[l]) ELSE OCEvent(T.events[l])
  /\ l' = l + 1 /\ UNCHANGED tid
TraceSpec == TraceInit /\ [][TraceNext]_tvars
Progress == TLCSet(tid, IF TLCGet(tid) < l THEN l ELSE TLCGet(tid))
Report == \A t \in 1..Len(Traces) : PrintT(<<"TRACE", Traces[t].tid, TLCGet(t), Len(Traces[t].events) + 1>>)
=============================================================================
