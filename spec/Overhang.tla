------------------------------ MODULE Overhang ------------------------------
(***************************************************************************)
(* OverhangFilter of pymoto/modules/filter.py (Langelaar's AM filter).     *)
(*                                                                         *)
(* 1. Direction parsing: strings over {+,-,none} x {x,y,z} (either order,  *)
(*    either case) and axis vectors map to (axis, sign).                   *)
(* 2. The layer sweep y_e = smin(x_e, smax(y_supp)) instantiated at the    *)
(*    admissible parameter point p = 2, xi_0 = 1/nsampling, eps = 0, where *)
(*    smax = sum of squares and smin = min, so the whole sweep is exact    *)
(*    rational arithmetic: supports = the 3 / 5 / 9 point stencil in the   *)
(*    previous layer, clipped to the domain.                               *)
(* Declarative part: base layer unchanged, y <= x, supported solid stays   *)
(* solid, unsupported material is removed, and equivariance under mirror   *)
(* and axis swap.                                                          *)
(***************************************************************************)
EXTENDS Num, FiniteSets, TLC, Json

CONSTANTS Grids,      \* set of <<nx, ny, nz>> (nz = 0: 2D)
          Levels,     \* set of rationals the densities take
          NSamp,      \* set of nsampling values to use in 3D ({5, 9}); 2D always 3
          Variant

(* ---- direction parsing ---- *)
Letters == <<"x", "y", "z">>
AxisOf(c) == IF c \in {"x", "X"} THEN 1 ELSE IF c \in {"y", "Y"} THEN 2 ELSE 3
IsLetter(c) == c \in {"x", "y", "z", "X", "Y", "Z"}
(* a direction string is a sequence of characters *)
ParseDir(s) ==
  LET letter == CHOOSE i \in 1..Len(s) : IsLetter(s[i]) IN
  [axis |-> AxisOf(s[letter]),
   sign |-> IF (\E i \in 1..Len(s) : s[i] = "-") /\ Variant # "sign_ignored" THEN -1 ELSE 1]
DirStrings == {<<c>> : c \in {"x", "y", "z", "X", "Z"}}
         \cup {<<sg, c>> : sg \in {"+", "-"}, c \in {"x", "y", "z", "Y"}}
         \cup {<<c, sg>> : sg \in {"+", "-"}, c \in {"x", "y", "z", "X"}}
(* declaratively: the letter names the axis, a minus sign anywhere means the negative direction *)
DirTableOK == \A s \in DirStrings :
   /\ \E i \in 1..Len(s) : IsLetter(s[i]) /\ ParseDir(s).axis = AxisOf(s[i])
   /\ ParseDir(s).sign = (IF "-" \in {s[i] : i \in 1..Len(s)} THEN -1 ELSE 1)

(* ---- the sweep ---- *)
Dim(g) == IF g[3] = 0 THEN 2 ELSE 3
Sz(g, a) == IF a = 3 /\ g[3] = 0 THEN 1 ELSE g[a]
Nel(g) == Sz(g, 1) * Sz(g, 2) * Sz(g, 3)
El(g, c) == (c[3] * g[2] + c[2]) * g[1] + c[1] + 1            \* 1-based position of element with 0-based coordinates c
Coords(g) == {<<i, j, k>> : i \in 0..Sz(g, 1) - 1, j \in 0..Sz(g, 2) - 1, k \in 0..Sz(g, 3) - 1}
InDom(g, c) == \A a \in 1..3 : c[a] >= 0 /\ c[a] < Sz(g, a)

(* offsets in the two axes orthogonal to the print axis *)
Stencil(ns) == IF ns = 3 THEN {<<-1, 0>>, <<0, 0>>, <<1, 0>>}
               ELSE IF ns = 5 THEN {<<-1, 0>>, <<0, 0>>, <<1, 0>>, <<0, -1>>, <<0, 1>>}
               ELSE {<<a, b>> : a \in -1..1, b \in -1..1}
(* the in-plane orthogonal axis comes first in 2D (the offsets of the 3-point stencil act on it) *)
Orth(g, axis) == IF Dim(g) = 2 THEN (IF axis = 1 THEN <<2, 3>> ELSE <<1, 3>>)
                 ELSE IF axis = 1 THEN <<2, 3>> ELSE IF axis = 2 THEN <<3, 1>> ELSE <<1, 2>>
Supports(g, c, axis, sign, ns) ==
  LET o == Orth(g, axis) IN
  {s \in {[[c EXCEPT ![axis] = c[axis] - sign] EXCEPT ![o[1]] = c[o[1]] + d[1], ![o[2]] = c[o[2]] + d[2]] : d \in Stencil(ns)} : InDom(g, s)}

RECURSIVE QSumSet(_, _)
QSumSet(S, f) == IF S = {} THEN QZero ELSE LET s == CHOOSE t \in S : TRUE IN QAdd(QMul(f[s], f[s]), QSumSet(S \ {s}, f))

(* y as a function over coordinates; layers are processed from the base in the print direction *)
RECURSIVE Sweep(_, _, _, _, _, _, _)
Sweep(g, x, y, axis, sign, ns, l) ==
  IF l < 0 \/ l >= Sz(g, axis) THEN y
  ELSE LET layer == {c \in Coords(g) : c[axis] = l}
           y2 == [c \in Coords(g) |-> IF c \in layer THEN QMin(x[c], QSumSet(Supports(g, c, axis, sign, ns), y)) ELSE y[c]]
       IN Sweep(g, x, y2, axis, sign, ns, l + sign)
Filter(g, x, axis, sign, ns) ==
  Sweep(g, x, x, axis, sign, ns, IF sign = 1 THEN 1 ELSE Sz(g, axis) - 2)
Base(g, axis, sign) == IF sign = 1 THEN 0 ELSE Sz(g, axis) - 1

(* ---- exact Jacobian at the rational parameter point (forward mode): derivative of every output with     ---- *)
(* ---- respect to input j; defined where no element sits exactly at the kink x_e = sum y_s^2               ---- *)
RECURSIVE QSumSetD(_, _, _)
QSumSetD(S, f, df) == IF S = {} THEN QZero ELSE LET s == CHOOSE t \in S : TRUE IN QAdd(QMul(QMul(QI(2), f[s]), df[s]), QSumSetD(S \ {s}, f, df))
RECURSIVE SweepD(_, _, _, _, _, _, _, _)
SweepD(g, xx, yy, dy, axis, sign, nsamp, l) ==      \* yy: values, dy: derivatives (both over coordinates)
  IF l < 0 \/ l >= Sz(g, axis) THEN dy
  ELSE LET layer == {c \in Coords(g) : c[axis] = l}
           m(c) == QSumSet(Supports(g, c, axis, sign, nsamp), yy)
           y2 == [c \in Coords(g) |-> IF c \in layer THEN QMin(xx[c], m(c)) ELSE yy[c]]
           dy2 == [c \in Coords(g) |-> IF c \in layer THEN (IF QLess(xx[c], m(c)) THEN dy[c]     \* dy was initialised with dx
                                                            ELSE QSumSetD(Supports(g, c, axis, sign, nsamp), yy, dy)) ELSE dy[c]]
       IN SweepD(g, xx, y2, dy2, axis, sign, nsamp, l + sign)
Jac(g, xx, axis, sign, nsamp, j) ==       \* column j: derivative of all outputs with respect to the input at coordinate j
  SweepD(g, xx, xx, [c \in Coords(g) |-> IF c = j THEN QOne ELSE QZero], axis, sign, nsamp, IF sign = 1 THEN 1 ELSE Sz(g, axis) - 2)
NoTie(g, xx, axis, sign, nsamp) ==
  LET y == Filter(g, xx, axis, sign, nsamp) IN
  \A c \in Coords(g) : c[axis] # Base(g, axis, sign) => xx[c] # QSumSet(Supports(g, c, axis, sign, nsamp), y)

(* ---- symmetries ---- *)
Mirror(g, x, a) == [c \in Coords(g) |-> x[[c EXCEPT ![a] = Sz(g, a) - 1 - c[a]]]]
SwapXY(g) == <<g[2], g[1], g[3]>>
SwapField(g, x) == [c \in Coords(SwapXY(g)) |-> x[<<c[2], c[1], c[3]>>]]

(* ---- case enumeration: the field is chosen cell by cell (small fan-out, so that simulation can ---- *)
(* ---- sample large grids) and evaluated when complete                                            ---- *)
VARIABLES grid, xs, ns, phase
vars == <<grid, xs, ns, phase>>
x == [c \in Coords(grid) |-> xs[El(grid, c)]]
Init == grid \in Grids /\ xs = <<>> /\ phase = "pick"
        /\ ns \in (IF Dim(grid) = 2 THEN {3} ELSE NSamp)
Pick == /\ phase = "pick" /\ Len(xs) < Nel(grid)
        /\ \E v \in Levels : xs' = Append(xs, v)
        /\ UNCHANGED <<grid, ns, phase>>
Eval == phase = "pick" /\ Len(xs) = Nel(grid) /\ phase' = "eval" /\ UNCHANGED <<grid, xs, ns>>
Done == phase = "eval" /\ phase' = "done" /\ UNCHANGED <<grid, xs, ns>>
Next == Pick \/ Eval \/ Done
Spec == Init /\ [][Next]_vars

Dirs(g) == {<<a, s>> : a \in 1..Dim(g), s \in {1, -1}}
C14 ==
  phase = "eval" =>
    \A d \in Dirs(grid) :
       LET axis == d[1]  sign == d[2]
           y == Filter(grid, x, axis, sign, ns) IN
       /\ \A c \in Coords(grid) : c[axis] = Base(grid, axis, sign) => y[c] = x[c]        \* base layer unchanged
       /\ \A c \in Coords(grid) : QLeq(y[c], x[c])                                         \* never adds material (eps = 0)
       /\ \A c \in Coords(grid) : (c[axis] # Base(grid, axis, sign) /\ x[c] = QOne
                                    /\ \E s \in Supports(grid, c, axis, sign, ns) : y[s] = QOne) => y[c] = QOne   \* supported solid stays
       /\ \A c \in Coords(grid) : (c[axis] # Base(grid, axis, sign)
                                    /\ \A s \in Supports(grid, c, axis, sign, ns) : y[s] = QZero) => y[c] = QZero  \* unsupported removed
       \* equivariance: mirror along any axis (the print direction flips with its own axis)
       /\ \A a \in 1..Dim(grid) :
            Filter(grid, Mirror(grid, x, a), axis, IF a = axis THEN -sign ELSE sign, ns) = Mirror(grid, y, a)
       \* equivariance: swapping the x and y axes
       /\ LET ax2 == IF axis = 1 THEN 2 ELSE IF axis = 2 THEN 1 ELSE 3 IN
            Filter(SwapXY(grid), SwapField(grid, x), ax2, sign, ns) = SwapField(grid, y)

FieldSeq(g, f) == Tup([e \in 1..Nel(g) |-> f[CHOOSE c \in Coords(g) : El(g, c) = e]])
Emit == phase = "done" =>
   PrintT(<<"CASE", ToJson([grid |-> grid, ns |-> ns, x |-> FieldSeq(grid, x),
                            y |-> {<<d[1], d[2], FieldSeq(grid, Filter(grid, x, d[1], d[2], ns))>> : d \in Dirs(grid)}])>>)
CoordOf(g, e) == CHOOSE c \in Coords(g) : El(g, c) = e
EmitJac == phase = "done" =>
   PrintT(<<"JAC", ToJson([grid |-> grid, ns |-> ns, x |-> FieldSeq(grid, x),
        jac |-> {<<d[1], d[2], Tup([j \in 1..Nel(grid) |-> FieldSeq(grid, Jac(grid, x, d[1], d[2], ns, CoordOf(grid, j)))])>> :
                    d \in {dd \in Dirs(grid) : NoTie(grid, x, dd[1], dd[2], ns)}}])>>)
EmitDirs == (phase = "pick" /\ xs = <<>>) => PrintT(<<"DIRS", ToJson({<<s, ParseDir(s).axis, ParseDir(s).sign>> : s \in DirStrings})>>)
=============================================================================
