-------------------------------- MODULE LDAS --------------------------------
(***************************************************************************)
(* LDAWrapper of pymoto/solvers/solvers.py (linear-dependency-aware        *)
(* solver) as a state machine.                                             *)
(*                                                                         *)
(* Matrices are abstract (a version and a class); right-hand sides are     *)
(* exact Gaussian-integer vectors of C^3, single or in blocks.  The        *)
(* operational part mirrors update() and _do_solve_1rhs(): flag detection, *)
(* storage/conjugation selection, modified Gram-Schmidt reconstruction     *)
(* from the selected database with the real/complex skip rule, inner solve *)
(* iff a residual remains, orthogonalised append.  The declarative part    *)
(* states C06 independently: the mode actually solved is the requested     *)
(* one for the current matrix class (ModeSound), nothing of an earlier     *)
(* matrix survives (Forget), a right-hand side in the span (by exact rank) *)
(* of those already solved needs no inner call (Reuse), and the databases  *)
(* hold exactly a basis of what was solved (DbRank).                       *)
(***************************************************************************)
EXTENDS Num, TLC, Json

CONSTANTS TransSet,  \* the modes used (subsets give focused, deeper enumerations)
          X0s,       \* {FALSE} for checking (an initial guess has no effect in the model), BOOLEAN for emission
          Classes,   \* subset of {"rs","rg","cs","ch","cg"}
          Pool,      \* sequence of blocks [cols |-> <<vectors of <<re,im>> integer pairs>>, cplx |-> BOOLEAN]
          Givens,    \* subset of {"none","sym","herm"}: flags supplied by the user at construction
          Depth, Record, Variant

VARIABLES ver, cls, fSym, fHerm, given, dbN, dbH, solvedN, solvedH, inner, last, hist
vars == <<ver, cls, fSym, fHerm, given, dbN, dbH, solvedN, solvedH, inner, last, hist>>
view == <<ver, cls, fSym, fHerm, given, dbN, dbH, solvedN, solvedH>>

IsCplx(c) == c \in {"cs", "ch", "cg"}
IsSym(c) == c \in {"rs", "cs"}
IsHerm(c) == c \in {"rs", "ch"}

-----------------------------------------------------------------------------
(* modified Gram-Schmidt reconstruction of r from the database entries k..Len(db)                 *)
(* workC: the working dtype is complex. For a real working dtype an entry whose projection is not  *)
(* real-valued is skipped (solvers.py:175-187).                                                    *)
RECURSIVE Reconstruct(_, _, _, _)
Reconstruct(db, r, workC, k) ==
  IF k > Len(db) THEN [r |-> r, skipped |-> FALSE]
  ELSE LET b == db[k].b
           nb == GVDotC(b, b)                    \* <b,b>: a positive integer
           rem == GVScale(GVDotC(r, b), b)       \* nb * (alpha * b) with alpha = <r,b>/<b,b>
           skip == ~workC /\ ~GVIsReal(rem)
           \* fraction-free: the residual is kept up to a positive integer factor, which changes
           \* neither its being zero, nor its direction, nor real-valuedness of later projections
           rest == Reconstruct(db, IF skip THEN r ELSE GPrim(GVSub(GVScale(nb, r), rem)), workC, k + 1)
       IN [r |-> rest.r, skipped |-> (skip \/ rest.skipped)]

(* orthogonalise a candidate against every database entry (solvers.py:222-227) *)
RECURSIVE Orth(_, _, _)
Orth(db, b, k) ==
  IF k > Len(db) THEN b
  ELSE LET e == db[k].b IN Orth(db, GPrim(GVSub(GVScale(GVDotC(e, e), b), GVScale(GVDotC(b, e), e))), k + 1)

(* process the columns of a block one after the other: returns the new database, whether the      *)
(* inner solver is needed, and per column [need, inspan, skipped]                                  *)
RECURSIVE AppendCols(_, _, _, _)
AppendCols(db, R, need, j) ==        \* append the residuals of the columns that needed a solve
  IF j > Len(R) THEN db
  ELSE IF ~need[j] THEN AppendCols(db, R, need, j + 1)
  ELSE LET b == Orth(db, R[j], 1) IN
       AppendCols(IF GVIsZero(b) THEN db ELSE Append(db, [b |-> b, ver |-> ver]), R, need, j + 1)

Select(trans) ==      \* solvers.py:266-272
  [adjoint |-> trans # "N" /\ ~(fSym \/ fHerm),
   conj    |-> (fSym /\ trans = "H") \/ (~fSym /\ trans = "T")]

(* is solving with (storage, conj) the requested system for a matrix of class c ?                   *)
(*   storage N, no conj : A x = b          storage N, conj : conj(A) x = b                         *)
(*   storage H, no conj : A^H x = b        storage H, conj : A^T x = b                             *)
Correct(trans, sel, c) ==
  CASE trans = "N" -> ~sel.adjoint /\ (~sel.conj \/ ~IsCplx(c))
    [] trans = "T" -> IF sel.adjoint THEN (sel.conj \/ ~IsCplx(c))
                      ELSE IF sel.conj THEN IsHerm(c) ELSE IsSym(c)
    [] trans = "H" -> IF sel.adjoint THEN (~sel.conj \/ ~IsCplx(c))
                      ELSE IF sel.conj THEN IsSym(c) ELSE IsHerm(c)

Step(op, args, out) ==
  /\ last' = [op |-> op, args |-> args, out |-> out]
  /\ hist' = IF Record THEN Append(hist, [op |-> op, args |-> args, out |-> out, inner |-> inner',
                                          nN |-> Len(dbN'), nH |-> Len(dbH'), fSym |-> fSym', fHerm |-> fHerm'])
             ELSE hist

-----------------------------------------------------------------------------
Init ==
  /\ ver = 0 /\ cls = "none"
  /\ given \in Givens
  /\ fSym = (given = "sym") /\ fHerm = (given = "herm")
  /\ dbN = <<>> /\ dbH = <<>> /\ solvedN = {} /\ solvedH = {} /\ inner = 0
  /\ last = [op |-> "Init", args |-> <<>>, out |-> <<>>] /\ hist = <<>>

Consistent(c) ==   \* the user does not lie about the flags
  /\ given = "sym" => IsSym(c)
  /\ given = "herm" => IsHerm(c)

(* LDAWrapper.update: flags are (re-)detected unless supplied by the user; both databases cleared *)
Update(c) ==
  /\ c \in Classes /\ Consistent(c)
  /\ ver' = ver + 1 /\ cls' = c
  /\ LET redetect == Variant # "stale_flags" \/ ver = 0 IN
     /\ fSym' = IF given = "sym" THEN TRUE
                ELSE IF given = "herm" THEN (IF redetect THEN IsSym(c) ELSE fSym)
                ELSE IF redetect THEN IsSym(c) ELSE fSym
     /\ fHerm' = IF given = "herm" THEN TRUE ELSE IF redetect THEN IsHerm(c) ELSE fHerm
  /\ dbN' = <<>> /\ solvedN' = {}
  /\ dbH' = IF Variant = "no_clear_adjoint" THEN dbH ELSE <<>>
  /\ solvedH' = {}
  /\ UNCHANGED <<given, inner>>
  /\ Step("Update", <<c>>, <<>>)

(* the complete effect of one solve, computed once (bound through a singleton set below so that     *)
(* TLC evaluates it eagerly instead of re-evaluating the lazy LET at every use)                    *)
SolveResult(p, trans) ==
  LET blk == Pool[p]
      sel == Select(trans)
      workC == IsCplx(cls) \/ blk.cplx
      cols == Tup([j \in 1..Len(blk.cols) |-> IF sel.conj THEN GVConj(blk.cols[j]) ELSE blk.cols[j]])
      db == IF sel.adjoint THEN dbH ELSE dbN
      solved == IF sel.adjoint THEN solvedH ELSE solvedN
      rec == Tup([j \in 1..Len(cols) |-> Reconstruct(db, cols[j], workC, 1)])
      R == Tup([j \in 1..Len(cols) |-> rec[j].r])
      need == Tup([j \in 1..Len(cols) |-> ~GVIsZero(R[j])])
  IN [db2 |-> AppendCols(db, R, need, 1),
      adjoint |-> sel.adjoint,
      newsolved |-> solved \cup {cols[j] : j \in 1..Len(cols)},
      anyneed |-> \E j \in 1..Len(cols) : need[j],
      out |-> [storage |-> IF sel.adjoint THEN "H" ELSE "N", conj |-> sel.conj, cplx |-> workC,
               correct |-> Correct(trans, sel, cls),
               stale |-> \E k \in 1..Len(db) : db[k].ver # ver,
               need |-> need,
               inspan |-> Tup([j \in 1..Len(cols) |-> InSpan3(cols[j], solved)]),
               skipped |-> Tup([j \in 1..Len(cols) |-> rec[j].skipped]),
               called |-> \E j \in 1..Len(cols) : need[j]]]

(* LDAWrapper.solve(block p of the pool, trans, with or without an initial guess) *)
Solve(p, trans, x0) ==
  /\ ver > 0
  /\ UNCHANGED <<ver, cls, fSym, fHerm, given>>
  /\ \E res \in {SolveResult(p, trans)} :
        /\ inner' = IF res.anyneed THEN inner + 1 ELSE inner
        /\ IF res.adjoint
             THEN dbH' = res.db2 /\ solvedH' = res.newsolved /\ UNCHANGED <<dbN, solvedN>>
             ELSE dbN' = res.db2 /\ solvedN' = res.newsolved /\ UNCHANGED <<dbH, solvedH>>
        /\ Step("Solve", <<p, trans, x0>>, res.out)

Finish ==
  /\ Record /\ Len(hist) = Depth /\ last.op # "Finish"
  /\ last' = [op |-> "Finish", args |-> <<>>, out |-> <<>>]
  /\ UNCHANGED <<ver, cls, fSym, fHerm, given, dbN, dbH, solvedN, solvedH, inner, hist>>

Act ==
  /\ (Len(hist) < Depth \/ ~Record)
  /\ \/ \E c \in Classes : Update(c)
     \/ \E p \in 1..Len(Pool), trans \in TransSet, x0 \in X0s : Solve(p, trans, x0)

Next == Finish \/ Act
Spec == Init /\ [][Next]_vars
DepthBound == TLCGet("level") <= Depth + 1

-----------------------------------------------------------------------------
(* C06, declaratively *)
ModeSound == [][last'.op = "Solve" => last'.out.correct]_vars          \* the requested system of the current matrix
Forget == [][last'.op = "Solve" => ~last'.out.stale]_vars              \* nothing stored for an earlier matrix is used
ForgetInv == \A k \in 1..Len(dbN) : dbN[k].ver = ver
ForgetInvH == \A k \in 1..Len(dbH) : dbH[k].ver = ver
(* a right-hand side in the span of those already solved for the current matrix needs no inner call *)
ReuseStrict == [][last'.op = "Solve" =>
                    \A j \in 1..Len(last'.out.need) : last'.out.inspan[j] => ~last'.out.need[j]]_vars
(* ... except in the one situation recorded as a known finding: a real right-hand side of a real   *)
(* matrix while the database holds complex vectors whose projections are not real-valued           *)
ReuseModuloRealSkip ==
  [][last'.op = "Solve" =>
       \A j \in 1..Len(last'.out.need) : (last'.out.inspan[j] /\ ~last'.out.skipped[j]) => ~last'.out.need[j]]_vars
(* conversely the inner solver is called only when something new is asked *)
NoNeedlessReuse == [][last'.op = "Solve" =>
                    \A j \in 1..Len(last'.out.need) : ~last'.out.inspan[j] => last'.out.need[j]]_vars
DbRank == Len(dbN) = Rank3(solvedN) /\ Len(dbH) = Rank3(solvedH)

Emit == (Record /\ last.op = "Finish") => PrintT(<<"BEH", ToJson([given |-> given, steps |-> hist])>>)
=============================================================================
