---------------------------- MODULE TraceSignals ----------------------------
(***************************************************************************)
(* Trace validation for Signals.tla.  A batch of traces recorded from the  *)
(* real pymoto Signal/SignalSlice objects (JSON, file named by the         *)
(* environment variable TRACE_FILE) is replayed with the specification's   *)
(* own actions; after every event the logged contents of the signal, of    *)
(* the slice used and of every caller-held array must equal the            *)
(* specification's.  Complex data is validated as two integer traces       *)
(* (all operations are additive).  Arrays are zero-padded to NMax.         *)
(***************************************************************************)
EXTENDS Integers, Sequences, FiniteSets, TLC, Json, IOUtils

Traces == JsonDeserialize(IOEnv.TRACE_FILE)
NMax == 27

VARIABLES heap, st, se, keep, user, legit, last, hist, tid, l

S == INSTANCE Signals WITH N <- NMax, Scalar <- FALSE, SliceDefs <- <<>>, SVals <- {}, MaxObj <- 6,
                           Depth <- 1000, Record <- FALSE, Variant <- "faithful"

tvars == <<heap, st, se, keep, user, legit, last, hist, tid, l>>
T == Traces[tid]
Pad(v) == [i \in 1..NMax |-> IF i <= Len(v) THEN v[i] ELSE 0]
IsNone(x) == Len(x) = 0     \* None is logged as the empty list (arrays are never empty)
ASSUME \A t \in 1..Len(Traces) : TLCSet(t, 0)

TraceInit ==
  /\ tid \in 1..Len(Traces)
  /\ l = 1
  /\ keep = [s \in S!Sigs |-> s = "A" /\ Traces[tid].keep]
  /\ heap = [o \in 1..6 |-> IF o <= 3 THEN [live |-> TRUE, v |-> Pad(Traces[tid].users0[o])]
                            ELSE IF o = 4 /\ Traces[tid].keep THEN [live |-> TRUE, v |-> S!Zeros]
                            ELSE S!Dead]
  /\ se = [s \in S!Sigs |-> IF s = "A" /\ Traces[tid].keep THEN 4 ELSE 0]
  /\ st = [s \in S!Sigs |-> 0]
  /\ user = {1, 2, 3}
  /\ legit = [s \in S!Sigs |-> 0]
  /\ last = [op |-> "Init", args |-> <<>>]
  /\ hist = <<>>

GatherP(o, P) == [i \in 1..Len(P) |-> heap'[o].v[P[i]]]
MatchObj(o, logged) == IF IsNone(logged) THEN o = 0 ELSE o # 0 /\ heap'[o].v = Pad(logged)

PostOK(e) ==
  /\ MatchObj(st'["A"], e.state)
  /\ MatchObj(se'["A"], e.sens)
  /\ \A o \in 1..3 : heap'[o].v = Pad(e.users[o])
  /\ "slstate" \in DOMAIN e =>
        /\ IF IsNone(e.slstate) THEN st'["A"] = 0 ELSE st'["A"] # 0 /\ GatherP(st'["A"], e.pos) = e.slstate
        /\ IF IsNone(e.slsens) THEN se'["A"] = 0 ELSE se'["A"] # 0 /\ GatherP(se'["A"], e.pos) = e.slsens

TraceNext ==
  /\ l <= Len(T.events)
  /\ LET e == T.events[l] IN
     /\ "raised" \notin DOMAIN e
     /\ CASE e.op = "SetState" -> S!SetState("A", e.obj)
          [] e.op = "SetSens" -> S!SetSens("A", e.obj)
          [] e.op = "AddSens" -> S!AddSens("A", e.obj)
          [] e.op = "Reset" -> S!Reset("A", e.kk)
          [] e.op = "SetStateSlice" -> S!SetStateSlice(e.pos, e.vals, <<0, 0>>)
          [] e.op = "SetSensSlice" -> S!SetSensSlice(e.pos, e.vals, <<0, 0>>)
          [] e.op = "AddSensSlice" -> S!AddSensSlice(e.pos, e.vals, <<0, 0>>)
          [] e.op = "ResetSlice" -> S!ResetSlice(e.pos, <<0, 0>>)
          [] e.op = "UserMutate" -> S!UserMutate(e.obj, e.pos, e.val)
          [] OTHER -> FALSE
     /\ PostOK(e)
  /\ l' = l + 1
  /\ UNCHANGED tid

TraceSpec == TraceInit /\ [][TraceNext]_tvars

(* deepest matched prefix per trace, kept in TLC registers *)
Progress == TLCSet(tid, IF TLCGet(tid) < l THEN l ELSE TLCGet(tid))
Report == \A t \in 1..Len(Traces) : PrintT(<<"TRACE", Traces[t].tid, TLCGet(t), Len(Traces[t].events) + 1>>)

(* the declarative properties of Signals.tla, evaluated on the observed executions *)
NoAlias == S!NoAlias
MutateFrame == S!MutateFrame
AddExact == S!AddExact
ResetClears == S!ResetClears
SliceFrame == S!SliceFrame
SliceEffect == S!SliceEffect
=============================================================================
