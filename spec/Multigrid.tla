------------------------------ MODULE Multigrid ------------------------------
(***************************************************************************)
(* Interpolation operator of GeometricMultigrid (pymoto/solvers/           *)
(* iterative.py, setup_interpolation) between a structured grid with even   *)
(* element counts and the grid with half as many elements per direction.    *)
(* Operational: for every offset (i,j,k) in {-1,0,1}^dim the fine node      *)
(* 2c + offset receives weight 2^-(number of non-zero offsets) from coarse  *)
(* node c.  Declarative: the rows form a partition of unity, affine nodal    *)
(* fields are interpolated exactly (multilinear interpolation), and coarse  *)
(* nodes are injected.                                                      *)
(***************************************************************************)
EXTENDS GridOps

CONSTANT MGGrids     \* set of fine grids [nx, ny, nz] with even element counts
Coarse(g) == [nx |-> g.nx \div 2, ny |-> g.ny \div 2, nz |-> g.nz \div 2]
Offsets(g) == {<<a, b, c>> : a \in -1..1, b \in -1..1, c \in (IF Dim(g) = 3 THEN -1..1 ELSE {0})}
Abs1(x) == IF x < 0 THEN -x ELSE x
WeightOf(o) == Q(1, CASE Abs1(o[1]) + Abs1(o[2]) + Abs1(o[3]) = 0 -> 1 [] Abs1(o[1]) + Abs1(o[2]) + Abs1(o[3]) = 1 -> 2
                       [] Abs1(o[1]) + Abs1(o[2]) + Abs1(o[3]) = 2 -> 4 [] OTHER -> 8)
(* operational: the list of (fine node, coarse node, weight) triplets *)
Entries(g) ==
  LET gc == Coarse(g) IN
  UNION {{<<NodeNo(g, 2 * c[1] + o[1], 2 * c[2] + o[2], 2 * c[3] + o[3]), NodeNo(gc, c[1], c[2], c[3]), WeightOf(o)>> :
             o \in {p \in Offsets(g) : \A d \in 1..3 : 2 * c[d] + p[d] >= 0 /\ 2 * c[d] + p[d] <= (<<g.nx, g.ny, g.nz>>)[d]}} :
         c \in NodeIdxSet(gc)}
RECURSIVE QSumSet3(_)
QSumSet3(S) == IF S = {} THEN QZero ELSE LET t == CHOOSE u \in S : TRUE IN QAdd(t[3], QSumSet3(S \ {t}))
RowSum(g, f) == QSumSet3({t \in Entries(g) : t[1] = f})
(* interpolate the coarse nodal values of the affine field 1 + 2x + 3y + 5z (coordinates in fine-node units) *)
Aff(n) == 1 + 2 * n[1] + 3 * n[2] + 5 * n[3]
RECURSIVE QWSum(_, _)
QWSum(S, gc) == IF S = {} THEN QZero ELSE LET t == CHOOSE u \in S : TRUE
                                               cn == NodeIdx(gc, t[2]) IN
                                           QAdd(QMul(t[3], QI(Aff(<<2 * cn[1], 2 * cn[2], 2 * cn[3]>>))), QWSum(S \ {t}, gc))
VARIABLES grid, done
vars == <<grid, done>>
Init == grid \in MGGrids /\ done = FALSE
Next == ~done /\ done' = TRUE /\ UNCHANGED grid
Spec == Init /\ [][Next]_vars
PartitionOfUnity == \A f \in 0..NNodes(grid) - 1 : RowSum(grid, f) = QOne
AffineExact == \A f \in 0..NNodes(grid) - 1 : QWSum({t \in Entries(grid) : t[1] = f}, Coarse(grid)) = QI(Aff(NodeIdx(grid, f)))
Injection == \A c \in NodeIdxSet(Coarse(grid)) :
               <<NodeNo(grid, 2 * c[1], 2 * c[2], 2 * c[3]), NodeNo(Coarse(grid), c[1], c[2], c[3]), QOne>> \in Entries(grid)
Emit == done => PrintT(<<"MG", ToJson([grid |-> grid, entries |-> Entries(grid)])>>)
=============================================================================
