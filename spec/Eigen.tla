-------------------------------- MODULE Eigen --------------------------------
(***************************************************************************)
(* EigenSolve of pymoto/modules/linalg.py on exactly constructed           *)
(* symmetric pencils.                                                      *)
(*   Q = I - 2 v v'/(v'v)   (Householder reflector, integer v)             *)
(*   A = L Q D Q' L',  B = L L'   (D: distinct integers, L: unit lower     *)
(*   triangular integers; L = I gives the standard problem)                *)
(* so that the eigenvalues are the entries of D and the B-normalised       *)
(* eigenvectors are the columns of L^-T Q - all rational.  The expected    *)
(* output (ascending order, sign with non-negative mean, for the sparse    *)
(* path the nmodes values closest to the shift) is defined here and TLC    *)
(* checks A q = lambda B q and q' B q = 1 exactly on it.                   *)
(***************************************************************************)
EXTENDS Num, FiniteSets, TLC, Json

CONSTANTS Cases    \* set of records [v, d, l, nmodes, sigma]: v integer vector, d distinct integers (sequence), l: unit lower
                   \* triangular integer matrix (sequence of rows), nmodes (0 = dense: all), sigma: rational shift

RECURSIVE QSumF(_, _, _)
QSumF(f, lo, hi) == IF lo > hi THEN QZero ELSE QAdd(f[lo], QSumF(f, lo + 1, hi))
Nn(c) == Len(c.v)
MatMul(X, Y) == Tup([i \in 1..Len(X) |-> Tup([j \in 1..Len(Y[1]) |-> QSumF([k \in 1..Len(Y) |-> QMul(X[i][k], Y[k][j])], 1, Len(Y))])])
MatT(X) == Tup([j \in 1..Len(X[1]) |-> Tup([i \in 1..Len(X) |-> X[i][j]])])
MatVec(X, u) == Tup([i \in 1..Len(X) |-> QSumF([k \in 1..Len(u) |-> QMul(X[i][k], u[k])], 1, Len(u))])
DotQ(u, w) == QSumF([k \in 1..Len(u) |-> QMul(u[k], w[k])], 1, Len(u))
IntM(M) == Tup([i \in 1..Len(M) |-> Tup([j \in 1..Len(M[i]) |-> QI(M[i][j])])])
Diag(d) == Tup([i \in 1..Len(d) |-> Tup([j \in 1..Len(d) |-> IF i = j THEN QI(d[i]) ELSE QZero])])

Householder(v) ==
  LET n == Len(v)
      vv == QSumF([k \in 1..n |-> QI(v[k] * v[k])], 1, n) IN
  Tup([i \in 1..n |-> Tup([j \in 1..n |-> QSub(IF i = j THEN QOne ELSE QZero, QDiv(QI(2 * v[i] * v[j]), vv))])])

(* inverse of a unit lower triangular integer matrix (integer again), by forward substitution *)
RECURSIVE LInvEntry(_, _, _), LAcc(_, _, _, _)
LAcc(L, i, j, k) == IF k > i - 1 THEN 0 ELSE L[i][k] * LInvEntry(L, k, j) + LAcc(L, i, j, k + 1)
LInvEntry(L, i, j) == IF i < j THEN 0 ELSE IF i = j THEN 1 ELSE 0 - LAcc(L, i, j, j)
LInv(L) == Tup([i \in 1..Len(L) |-> Tup([j \in 1..Len(L) |-> LInvEntry(L, i, j)])])

AMat(c) == LET Lq == IntM(c.l)  Qh == Householder(c.v) IN MatMul(MatMul(MatMul(MatMul(Lq, Qh), Diag(c.d)), MatT(Qh)), MatT(Lq))
BMat(c) == LET Lq == IntM(c.l) IN MatMul(Lq, MatT(Lq))
(* raw eigenvectors: columns of L^-T Q ; column i belongs to d[i] *)
RawVecs(c) == MatMul(MatT(IntM(LInv(c.l))), Householder(c.v))
Col(M, j) == Tup([i \in 1..Len(M) |-> M[i][j]])
MeanSign(u) == LET s == QSumF(u, 1, Len(u)) IN IF QLess(s, QZero) THEN -1 ELSE IF QIsZero(s) THEN 0 ELSE 1
Flip(u, sg) == IF sg < 0 THEN Tup([k \in 1..Len(u) |-> QNeg(u[k])]) ELSE u

(* selection: dense = all; sparse = the nmodes eigenvalues closest to sigma; then ascending order *)
Dist(c, i) == LET x == QSub(QI(c.d[i]), c.sigma) IN IF QLess(x, QZero) THEN QNeg(x) ELSE x
Selected(c) == IF c.nmodes = 0 THEN 1..Nn(c)
               ELSE CHOOSE S \in SUBSET (1..Nn(c)) : /\ Cardinality(S) = c.nmodes
                                                     /\ \A i \in S, j \in (1..Nn(c)) \ S : QLess(Dist(c, i), Dist(c, j))
Order(c) == LET S == Selected(c) IN
            CHOOSE q \in [1..Cardinality(S) -> S] : \A a, b \in 1..Cardinality(S) : a < b => c.d[q[a]] < c.d[q[b]]
Expected(c) ==
  LET ord == Order(c)  R == RawVecs(c) IN
  [lam |-> Tup([a \in 1..Len(ord) |-> c.d[ord[a]]]),
   vecs |-> Tup([a \in 1..Len(ord) |-> LET u == Col(R, ord[a]) IN Flip(u, MeanSign(u))])]

(* admissible: distinct eigenvalues, unambiguous selection.  An eigenvector whose entries sum to exactly zero is       *)
(* admissible too: both signs satisfy "non-negative mean", so its sign is free (SignFree) and the implementation is   *)
(* compared up to sign for it -- every other clause (A q = lambda B q, q'Bq = 1, order) binds as usual.               *)
Admissible(c) ==
  /\ \A i, j \in 1..Nn(c) : i # j => c.d[i] # c.d[j]
  /\ c.nmodes = 0 \/ \E S \in SUBSET (1..Nn(c)) : Cardinality(S) = c.nmodes /\ \A i \in S, j \in (1..Nn(c)) \ S : QLess(Dist(c, i), Dist(c, j))

SignFree(c) == LET ord == Order(c) IN Tup([a \in 1..Len(ord) |-> MeanSign(Col(RawVecs(c), ord[a])) = 0])
NoFreeSign(c) == \A i \in 1..Nn(c) : MeanSign(Col(RawVecs(c), i)) # 0      \* needed by the derivative cases (dq fixes the sign)

(* ---- first-order perturbation theory (distinct eigenvalues): exact directional derivatives of the selected       ---- *)
(* ---- eigenpairs along a symmetric direction (dA, dB)                                                               ---- *)
(*   d lambda_i = q_i' (dA - lambda_i dB) q_i                                                                             *)
(*   d q_i = sum_{j # i} q_j [q_j' (dA - lambda_i dB) q_i] / (lambda_i - lambda_j)  -  1/2 (q_i' dB q_i) q_i              *)
CONSTANT Dirs    \* set of [dA, dB]: symmetric integer matrices (by size: only those of matching size are used)
MatSub(X, Y) == Tup([i \in 1..Len(X) |-> Tup([j \in 1..Len(X[i]) |-> QSub(X[i][j], Y[i][j])])])
MatScale(a, X) == Tup([i \in 1..Len(X) |-> Tup([j \in 1..Len(X[i]) |-> QMul(a, X[i][j])])])
VecScale(a, u) == Tup([k \in 1..Len(u) |-> QMul(a, u[k])])
VecAdd(u, w) == Tup([k \in 1..Len(u) |-> QAdd(u[k], w[k])])
RECURSIVE VecSumF(_, _, _, _)
VecSumF(f, lo, hi, n) == IF lo > hi THEN Tup([k \in 1..n |-> QZero]) ELSE VecAdd(f[lo], VecSumF(f, lo + 1, hi, n))
Deriv(c, dir) ==
  LET n == Nn(c)  R == RawVecs(c)  ord == Order(c)  E == Expected(c)
      dA == IntM(dir.dA)  dB == IntM(dir.dB)
      one(a) ==
        LET i == ord[a]  qi == E.vecs[a]  li == QI(c.d[i])
            Mi == MatSub(dA, MatScale(li, dB))
            Mq == MatVec(Mi, qi)
            dl == DotQ(qi, Mq)
            terms == [j \in 1..n |-> IF j = i THEN Tup([k \in 1..n |-> QZero])
                                       ELSE VecScale(QDiv(DotQ(Col(R, j), Mq), QI(c.d[i] - c.d[j])), Col(R, j))]
            dq == VecAdd(VecSumF(terms, 1, n, n), VecScale(QNeg(QDiv(DotQ(qi, MatVec(dB, qi)), QI(2))), qi)) IN
        [dl |-> dl, dq |-> dq] IN
  [dA |-> dir.dA, dB |-> dir.dB, dlam |-> Tup([a \in 1..Len(ord) |-> one(a).dl]), dQ |-> Tup([a \in 1..Len(ord) |-> one(a).dq])]
VARIABLES cs, done
vars == <<cs, done>>
Init == cs \in Cases /\ Admissible(cs) /\ done = FALSE
Next == ~done /\ done' = TRUE /\ UNCHANGED cs
Spec == Init /\ [][Next]_vars

C11 ==
  LET A == AMat(cs)  B == BMat(cs)  E == Expected(cs) IN
  /\ \A a \in 1..Len(E.lam) :
       LET q == E.vecs[a] IN
       /\ MatVec(A, q) = Tup([k \in 1..Nn(cs) |-> QMul(QI(E.lam[a]), MatVec(B, q)[k])])     \* A q = lambda B q
       /\ DotQ(q, MatVec(B, q)) = QOne                                                        \* q' B q = 1
       /\ QLeq(QZero, QSumF(q, 1, Len(q)))                                                    \* non-negative mean
  /\ \A a, b \in 1..Len(E.lam) : a < b => E.lam[a] < E.lam[b]                                 \* ascending
  /\ \A a, b \in 1..Len(E.lam) : a # b => QIsZero(DotQ(E.vecs[a], MatVec(B, E.vecs[b])))      \* B-orthogonal

Emit == done => PrintT(<<"EIG", ToJson([A |-> AMat(cs), B |-> BMat(cs), std |-> (cs.l = LInv(cs.l)),
                                       nmodes |-> cs.nmodes, sigma |-> cs.sigma, lam |-> Expected(cs).lam, vecs |-> Expected(cs).vecs,
                                       signfree |-> SignFree(cs)])>>)
EmitDer == (done /\ NoFreeSign(cs)) => PrintT(<<"EIGD", ToJson([A |-> AMat(cs), B |-> BMat(cs), std |-> (cs.l = LInv(cs.l)), nmodes |-> cs.nmodes, sigma |-> cs.sigma,
                                            lam |-> Expected(cs).lam, vecs |-> Expected(cs).vecs,
                                            der |-> {Deriv(cs, dir) : dir \in {dd \in Dirs : Len(dd.dA) = Nn(cs)}}])>>)
(* consistency of the perturbation formulas with the defining equations, to first order:                                  *)
(*   (dA - lam dB - dlam B) q + (A - lam B) dq = 0   and   2 q' B dq + q' dB q = 0                                          *)
DerivOK ==
  LET A == AMat(cs)  B == BMat(cs)  E == Expected(cs) IN
  \A dir \in {dd \in Dirs : Len(dd.dA) = Nn(cs)} :
     LET D == Deriv(cs, dir)  dA == IntM(dir.dA)  dB == IntM(dir.dB) IN
     \A a \in 1..Len(E.lam) :
        LET q == E.vecs[a]  lam == QI(E.lam[a])  dq == D.dQ[a]  dl == D.dlam[a]
            r1 == VecAdd(MatVec(MatSub(MatSub(dA, MatScale(lam, dB)), MatScale(dl, B)), q), MatVec(MatSub(A, MatScale(lam, B)), dq)) IN
        /\ \A k \in 1..Nn(cs) : QIsZero(r1[k])
        /\ QIsZero(QAdd(QMul(QI(2), DotQ(q, MatVec(B, dq))), DotQ(q, MatVec(dB, q))))

=============================================================================
