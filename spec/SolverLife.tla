----------------------------- MODULE SolverLife -----------------------------
(***************************************************************************)
(* Life cycle of one LinearSolver object (pymoto/solvers): update(A) may    *)
(* be called any number of times with different admissible matrices and     *)
(* every later solve(b, trans) must solve the system of the matrix given    *)
(* LAST.  A solver keeps cached state between calls:                        *)
(*   - every solver: the factorisation ("main") of the matrix it was built  *)
(*     from;                                                                *)
(*   - SolverDenseCholesky: a flag `success` that selects between its own   *)
(*     factor and the factor held by the LDL back-up solver, which is       *)
(*     updated only when the Cholesky factorisation fails;                  *)
(*   - SolverDenseLDL(hermitian=None): the detected kind of factorisation   *)
(*     (L D L^H or L D L^T), which must fit the current matrix.             *)
(* Operational model: one action per public call.  Declarative property:    *)
(* the factor a solve reads was computed from the current matrix, with a    *)
(* factorisation kind that is valid for it.  Variants that keep a stale     *)
(* flag are refuted.  Behaviours are printed for replay on the real         *)
(* objects; the expected solutions come from the exact adjugates.           *)
(***************************************************************************)
EXTENDS Num, Sequences, FiniteSets, TLC, Json

CONSTANTS Pool,       \* sequence of square Gaussian-integer matrices of one size
          Configs,    \* solver configurations: "SolverDenseLU", "SolverDenseCholesky", "SolverDenseLDL(auto)", ...
          Depth,      \* number of calls per behaviour
          LVariant    \* "faithful" | "stale_success" | "sticky_kind"

S == INSTANCE Solvers WITH Mats <- {}, Variant <- "faithful", mat <- <<>>, done <- FALSE

Base(c) == IF c \in {"SolverDenseLDL(auto)", "SolverDenseLDL(hermitian=True)", "SolverDenseLDL(hermitian=False)"} THEN "SolverDenseLDL"
           ELSE IF c \in {"CG", "CG+Jacobi", "CG+SOR", "CG+ILU", "CG(dense)"} THEN "CG" ELSE c
(* a matrix the configuration documents *)
Adm(c, A) ==
  /\ S!Admissible(Base(c), A)
  /\ (c = "SolverDenseLDL(hermitian=True)") => S!IsHerm(A)
  /\ (c = "SolverDenseLDL(hermitian=False)") => S!IsSym(A)

VARIABLES cfg,      \* the configuration of this object
          cur,      \* index of the matrix given to the last update (0: none yet)
          main,     \* index of the matrix the object's own factor was computed from
          backup,   \* Cholesky only: index of the matrix held by the LDL back-up solver
          success,  \* Cholesky only: "none" | "yes" | "no"
          kind,     \* LDL only: "auto" (not yet detected) | "herm" | "sym"
          used,     \* what the last solve read: <<matrix index, factorisation kind>>, or <<>> before the first solve
          hist, fin
vars == <<cfg, cur, main, backup, success, kind, used, hist, fin>>

Init ==
  /\ cfg \in Configs /\ cur = 0 /\ main = 0 /\ backup = 0 /\ success = "none" /\ used = <<>> /\ hist = <<>> /\ fin = FALSE
  /\ kind = IF cfg = "SolverDenseLDL(hermitian=True)" THEN "herm" ELSE IF cfg = "SolverDenseLDL(hermitian=False)" THEN "sym" ELSE "auto"

Detect(A) == IF S!IsHerm(A) THEN "herm" ELSE "sym"
Update(i) ==
  /\ ~fin /\ Len(hist) < Depth /\ Adm(cfg, Pool[i])
  /\ cur' = i
  /\ IF cfg = "SolverDenseCholesky"
       THEN IF S!IsHPD(Pool[i])
              THEN main' = i /\ success' = "yes" /\ UNCHANGED backup
              ELSE /\ backup' = i /\ UNCHANGED main          \* the factorisation raises; the back-up solver takes the matrix
                   /\ success' = IF LVariant = "stale_success" THEN success ELSE "no"
       ELSE main' = i /\ UNCHANGED <<backup, success>>
  /\ kind' = IF Base(cfg) # "SolverDenseLDL" THEN kind
             ELSE IF cfg = "SolverDenseLDL(auto)" THEN (IF LVariant = "sticky_kind" /\ kind # "auto" THEN kind ELSE Detect(Pool[i]))
             ELSE kind
  /\ hist' = Append(hist, <<"update", i>>)
  /\ UNCHANGED <<cfg, used, fin>>

Solve ==
  /\ ~fin /\ Len(hist) < Depth /\ cur # 0
  /\ used' = IF cfg = "SolverDenseCholesky" THEN (IF success = "yes" THEN <<main, "chol">> ELSE <<backup, "herm">>)
             ELSE <<main, kind>>
  /\ hist' = Append(hist, <<"solve", cur>>)
  /\ UNCHANGED <<cfg, cur, main, backup, success, kind, fin>>

Finish == ~fin /\ Len(hist) = Depth /\ fin' = TRUE /\ UNCHANGED <<cfg, cur, main, backup, success, kind, used, hist>>
Next == (\E i \in 1..Len(Pool) : Update(i)) \/ Solve \/ Finish
Spec == Init /\ [][Next]_vars

(* ---- declarative: a solve reads a factor of the current matrix, of a kind that is valid for it ---- *)
KindValid(k, A) == CASE k = "chol" -> S!IsHPD(A) [] k = "herm" -> S!IsHerm(A) [] k = "sym" -> S!IsSym(A) [] OTHER -> TRUE
SolvesCurrent == used # <<>> => (used[1] = cur \/ hist[Len(hist)][1] = "update") /\ (used[1] # 0 => KindValid(used[2], Pool[used[1]]))
SolveReadsCurrent == [][(used' # used \/ (hist' # hist /\ hist'[Len(hist')][1] = "solve")) => (used'[1] = cur /\ KindValid(used'[2], Pool[cur]))]_vars

(* ---- emission ---- *)
EmitPool == (cur = 0 /\ hist = <<>> /\ cfg = CHOOSE c \in Configs : TRUE) =>
  PrintT(<<"POOL", ToJson([i \in 1..Len(Pool) |->
      [A |-> Pool[i], cplx |-> S!IsCplx(Pool[i]), adm |-> {c \in Configs : Adm(c, Pool[i])},
       sol |-> [t \in {"N", "T", "H"} |-> [adj |-> S!Adj(S!Op(Pool[i], t)), det |-> S!Det(S!Op(Pool[i], t))]]]])>>)
EmitLife == fin => PrintT(<<"LIFE", ToJson([cfg |-> cfg, steps |-> hist])>>)
=============================================================================
