---------------------------- MODULE LDASPattern ----------------------------
(***************************************************************************)
(* Which degrees of freedom may LDAWrapper divide out before consulting    *)
(* its database?  Declaratively: dof i is decoupled iff A[i][i] # 0 and     *)
(* row i and column i hold no other non-zero (get_diagonal_indices,        *)
(* solvers.py:78).  All N x N sparsity patterns that admit a non-singular   *)
(* matrix (a transversal exists) are enumerated; DiagSound states that      *)
(* dividing out exactly those dofs leaves the remaining system closed.      *)
(***************************************************************************)
EXTENDS Integers, Sequences, FiniteSets, TLC, Json
CONSTANTS N, Variant
VARIABLES pat, done
vars == <<pat, done>>
Idx == 1..N
Perms == {f \in [Idx -> Idx] : \A i, j \in Idx : i # j => f[i] # f[j]}
HasTransversal(p) == \E f \in Perms : \A i \in Idx : p[i][f[i]]

RowFree(p, i) == \A j \in Idx \ {i} : ~p[i][j]
ColFree(p, i) == \A j \in Idx \ {i} : ~p[j][i]
(* operational: what the code computes *)
DiagIdx(p) == {i \in Idx : p[i][i] /\ ColFree(p, i) /\ (Variant = "column_only" \/ RowFree(p, i))}
(* declarative: x_i = b_i / A_ii is forced by equation i alone, and x_i appears in no other equation *)
Decoupled(p, i) == p[i][i] /\ RowFree(p, i) /\ ColFree(p, i)

Init == pat \in [Idx -> [Idx -> BOOLEAN]] /\ HasTransversal(pat) /\ done = FALSE
Next == ~done /\ done' = TRUE /\ UNCHANGED pat
Spec == Init /\ [][Next]_vars

DiagSound == \A i \in DiagIdx(pat) : Decoupled(pat, i)
DiagComplete == \A i \in Idx : Decoupled(pat, i) => i \in DiagIdx(pat)
Emit == done => PrintT(<<"CASE", ToJson([pat |-> pat, diag |-> DiagIdx(pat)])>>)
=============================================================================
