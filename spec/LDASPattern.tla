---------------------------- MODULE LDASPattern ----------------------------
(***************************************************************************)
(* Which degrees of freedom may LDAWrapper divide out before consulting    *)
(* its database?  Declaratively: dof i is decoupled iff A[i][i] # 0 and     *)
(* row i and column i hold no other non-zero (get_diagonal_indices,        *)
(* solvers.py:78).  All N x N sparsity patterns that admit a non-singular   *)
(* matrix (a transversal exists) are enumerated; DiagSound states that      *)
(* dividing out exactly those dofs leaves the remaining system closed.      *)
(***************************************************************************)
EXTENDS Integers, Sequences, FiniteSets, TLC, Json
CONSTANTS N, Variant, Depth
VARIABLES pat,     \* the (value) pattern of the matrix given to the last update
          diag,    \* the dofs the wrapper divides out (its partition, computed in update)
          hist, done
vars == <<pat, diag, hist, done>>
Idx == 1..N
Perms == {f \in [Idx -> Idx] : \A i, j \in Idx : i # j => f[i] # f[j]}
HasTransversal(p) == \E f \in Perms : \A i \in Idx : p[i][f[i]]
Pats == {p \in [Idx -> [Idx -> BOOLEAN]] : HasTransversal(p)}

RowFree(p, i) == \A j \in Idx \ {i} : ~p[i][j]
ColFree(p, i) == \A j \in Idx \ {i} : ~p[j][i]
(* operational: what the code computes *)
DiagIdx(p) == {i \in Idx : p[i][i] /\ ColFree(p, i) /\ (Variant = "column_only" \/ RowFree(p, i))}
(* declarative: x_i = b_i / A_ii is forced by equation i alone, and x_i appears in no other equation *)
Decoupled(p, i) == p[i][i] /\ RowFree(p, i) /\ ColFree(p, i)

(* one wrapper object, updated Depth times.  The matrices may be stored with one fixed structure (explicit zeros, as an   *)
(* assembly with fixed connectivity produces them): the partition must follow the VALUES of the current matrix; the       *)
(* variant "stale_partition" recomputes it only when the stored structure changes, i.e. never after the first update       *)
Init == pat \in Pats /\ diag = DiagIdx(pat) /\ hist = <<[pat |-> pat, diag |-> DiagIdx(pat)]>> /\ done = FALSE
Update(p) ==
  /\ ~done /\ Len(hist) < Depth
  /\ pat' = p
  /\ diag' = IF Variant = "stale_partition" THEN diag ELSE DiagIdx(p)
  /\ hist' = Append(hist, [pat |-> p, diag |-> diag'])
  /\ UNCHANGED done
Finish == ~done /\ Len(hist) = Depth /\ done' = TRUE /\ UNCHANGED <<pat, diag, hist>>
Next == Finish \/ \E p \in Pats : Update(p)
Spec == Init /\ [][Next]_vars

DiagSound == \A i \in diag : Decoupled(pat, i)
DiagComplete == \A i \in Idx : Decoupled(pat, i) => i \in diag
Emit == (done /\ Depth = 1) => PrintT(<<"CASE", ToJson([pat |-> pat, diag |-> diag])>>)
EmitSeq == (done /\ Depth > 1) => PrintT(<<"SEQ", ToJson([steps |-> hist])>>)
=============================================================================
