--------------------------------- MODULE FE ---------------------------------
(***************************************************************************)
(* Finite-element operators of pymoto/modules/assembly.py on the           *)
(* structured grid of GridOps.tla, in exact integer / rational arithmetic. *)
(*                                                                         *)
(* Part A (assembly): the operational index construction of                *)
(*   AssembleGeneral (triplets with rows/cols from the dof connectivity,   *)
(*   removal of every entry whose row or column is constrained, appended   *)
(*   diagonal, duplicates summed) against the declarative "sum_e x_e K_e   *)
(*   scattered through the connectivity, constrained rows and columns      *)
(*   zero, bcdiagval on their diagonal".                                   *)
(* Part B (element matrices): constitutive matrices, stiffness / mass /    *)
(*   Poisson element matrices by exact tensor-product integration of the   *)
(*   multilinear shape functions, centroid strain operator, thermal load;  *)
(*   with their physics.                                                   *)
(***************************************************************************)
EXTENDS GridOps

(* ===================== Part A: assembly with integer data ===================== *)
ElemOfNo(g, e) == CHOOSE c \in ElemIdx(g) : ElemNo(g, c[1], c[2], c[3]) = e
NDofs(g, ndof) == ndof * NNodes(g)
DC(g, ndof, e) == LET c == ElemOfNo(g, e) IN DofConn(g, c[1], c[2], c[3], ndof)

RECURSIVE SumVals(_)
SumVals(S) == IF S = {} THEN 0 ELSE LET t == CHOOSE u \in S : TRUE IN t.val + SumVals(S \ {t})

(* operational: the triplet list as AssembleGeneral builds it (entry t = e*nd^2 + a*nd + b) *)
Triplets(g, ndof, Ke, xs) ==
  LET nd == ndof * ElemNodes(g)
      dcs == TLCEval([e \in 0..Nel(g) - 1 |-> DC(g, ndof, e)]) IN     \* TLCEval: evaluate once, not at every use
  TLCEval({[e |-> e, a |-> a, b |-> b,
    row |-> IF Variant = "rows_cols_swapped" THEN dcs[e][b] ELSE dcs[e][a],
    col |-> IF Variant = "rows_cols_swapped" THEN dcs[e][a] ELSE dcs[e][b],
    val |-> Ke[a][b] * xs[e + 1]] : e \in 0..Nel(g) - 1, a \in 1..nd, b \in 1..nd})
AssembleOp(g, ndof, Ke, xs, bc, dv) ==
  LET T == Triplets(g, ndof, Ke, xs)
      kept == TLCEval({t \in T : ~(t.row \in bc \/ (t.col \in bc /\ Variant # "bc_rows_only"))})
      n == NDofs(g, ndof) IN
  Tup([i \in 1..n |-> Tup([j \in 1..n |->
      SumVals({t \in kept : t.row = i - 1 /\ t.col = j - 1}) + (IF i = j /\ (i - 1) \in bc THEN dv ELSE 0)])])

(* declarative: dof i belongs to node p = i div ndof, component c = i mod ndof; node p is corner number   *)
(* 1 + da + 2 db + 4 dc of element E iff its Cartesian index minus E's lies in {0,1}^dim                   *)
LocalPos(g, E, p) ==
  LET P == NodeIdx(g, p)
      d == <<P[1] - E[1], P[2] - E[2], P[3] - E[3]>> IN
  IF d[1] \in {0, 1} /\ d[2] \in {0, 1} /\ d[3] \in (IF Dim(g) = 3 THEN {0, 1} ELSE {0})
    THEN 1 + d[1] + 2 * d[2] + 4 * d[3] ELSE 0
AssembleDecl(g, ndof, Ke, xs, bc, dv) ==
  LET n == NDofs(g, ndof) IN
  Tup([i \in 1..n |-> Tup([j \in 1..n |->
     IF (i - 1) \in bc \/ (j - 1) \in bc THEN (IF i = j THEN dv ELSE 0)
     ELSE LET p == (i - 1) \div ndof  c == (i - 1) % ndof  q == (j - 1) \div ndof  d == (j - 1) % ndof IN
          SumVals({[e |-> E, val |-> xs[ElemNo(g, E[1], E[2], E[3]) + 1] *
                                   Ke[(LocalPos(g, E, p) - 1) * ndof + c + 1][(LocalPos(g, E, q) - 1) * ndof + d + 1]] :
                      E \in {F \in ElemIdx(g) : LocalPos(g, F, p) # 0 /\ LocalPos(g, F, q) # 0}})])])

(* element-wise operator y[r, e] = sum_k Bm[r][k] u[dofconn[e][k]] as a dense matrix with rows (r major, e minor), and  *)
(* its nodal counterpart (scatter-add), which is its transpose                                                      *)
ElemOpMat(g, ndof, Bm) ==
  Tup([row \in 1..(Len(Bm) * Nel(g)) |->
     LET r == ((row - 1) \div Nel(g)) + 1  e == (row - 1) % Nel(g) IN
     Tup([j \in 1..NDofs(g, ndof) |-> SumVals({[a |-> a, val |-> Bm[r][a]] : a \in {p \in 1..Len(Bm[r]) : DC(g, ndof, e)[p] = j - 1}})])])
NodalOpMat(g, ndof, Am) ==     \* u[dofconn[e][k]] += Am[r][k] * x[r, e]
  Tup([j \in 1..NDofs(g, ndof) |->
     Tup([col \in 1..(Len(Am) * Nel(g)) |->
        LET r == ((col - 1) \div Nel(g)) + 1  e == (col - 1) % Nel(g) IN
        SumVals({[a |-> a, val |-> Am[r][a]] : a \in {p \in 1..Len(Am[r]) : DC(g, ndof, e)[p] = j - 1}})])])
IsTransposeI(X, Y) == /\ Len(X) = Len(Y[1]) /\ Len(Y) = Len(X[1])
                      /\ \A i \in 1..Len(X), j \in 1..Len(Y) : X[i][j] = Y[j][i]

(* ===================== Part B: element matrices in exact rationals ===================== *)
(* matrices are sequences of rows of rationals *)
QM(r, c, f(_, _)) == Tup([i \in 1..r |-> Tup([j \in 1..c |-> f(i, j)])])
RECURSIVE QSumN(_, _, _)
QSumN(f, lo, hi) == IF lo > hi THEN QZero ELSE QAdd(f[lo], QSumN(f, lo + 1, hi))     \* f: function on lo..hi
QMatMul(X, Y) == Tup([i \in 1..Len(X) |-> Tup([j \in 1..Len(Y[1]) |->
                     QSumN([l \in 1..Len(Y) |-> QMul(X[i][l], Y[l][j])], 1, Len(Y))])])
QMatT(X) == Tup([j \in 1..Len(X[1]) |-> Tup([i \in 1..Len(X) |-> X[i][j]])])
QMatVec(X, v) == Tup([i \in 1..Len(X) |-> QSumN([l \in 1..Len(v) |-> QMul(X[i][l], v[l])], 1, Len(v))])
QDotV(u, v) == QSumN([l \in 1..Len(v) |-> QMul(u[l], v[l])], 1, Len(v))
QScaleM(c, X) == Tup([i \in 1..Len(X) |-> Tup([j \in 1..Len(X[i]) |-> QMul(c, X[i][j])])])
QTwo == QI(2)

(* constitutive matrix, get_D *)
Mu(E, nu) == QDiv(E, QMul(QTwo, QAdd(QOne, nu)))
Lam(E, nu) == QDiv(QMul(E, nu), QMul(QAdd(QOne, nu), QSub(QOne, QMul(QTwo, nu))))
DMat(mode, E, nu) ==
  LET mu == Mu(E, nu)  lam == Lam(E, nu)  c1 == QAdd(QMul(QTwo, mu), lam)  z == QZero IN
  IF mode = "strain" THEN <<(<<c1, lam, z>>), (<<lam, c1, z>>), (<<z, z, mu>>)>>
  ELSE IF mode = "stress" THEN
       LET a == QDiv(E, QSub(QOne, QMul(nu, nu))) IN
       <<(<<a, QMul(a, nu), z>>), (<<QMul(a, nu), a, z>>), (<<z, z, QMul(a, QDiv(QSub(QOne, nu), QTwo))>>)>>
  ELSE <<(<<c1, lam, lam, z, z, z>>), (<<lam, c1, lam, z, z, z>>), (<<lam, lam, c1, z, z, z>>),
         (<<z, z, z, mu, z, z>>), (<<z, z, z, z, mu, z>>), (<<z, z, z, z, z, mu>>)>>

(* strain rows: which derivative axis of displacement component i enters strain row p (0 = none); get_B, Voigt order in 3D *)
GTab(dim) == IF dim = 2 THEN <<(<<1, 0>>), (<<0, 2>>), (<<2, 1>>)>>
             ELSE <<(<<1, 0, 0>>), (<<0, 2, 0>>), (<<0, 0, 3>>), (<<0, 3, 2>>), (<<3, 0, 1>>), (<<2, 1, 0>>)>>
NStrain(dim) == IF dim = 2 THEN 3 ELSE 6
NumG(dim) == IF dim = 2 THEN <<(<<-1, -1, 0>>), (<<1, -1, 0>>), (<<-1, 1, 0>>), (<<1, 1, 0>>)>>
             ELSE <<(<<-1, -1, -1>>), (<<1, -1, -1>>), (<<-1, 1, -1>>), (<<1, 1, -1>>),
                    (<<-1, -1, 1>>), (<<1, -1, 1>>), (<<-1, 1, 1>>), (<<1, 1, 1>>)>>
Vol(dim, sz) == IF dim = 2 THEN QMul(sz[1], sz[2]) ELSE QMul(QMul(sz[1], sz[2]), sz[3])

(* exact 1-D integrals over [-w/2, w/2] of products of the factors of two shape functions with coefficients n, m:  *)
(*   kind "dd": n * m            (both differentiated in this direction)                                          *)
(*   kind "dn": n * (w/2 + m x)  (first differentiated)        "nd" symmetric                                     *)
(*   kind "nn": (w/2 + n x)(w/2 + m x)                                                                             *)
Int1(kind, n, m, w) ==
  CASE kind = "dd" -> QMul(QI(n * m), w)
    [] kind = "dn" -> QMul(QI(n), QDiv(QMul(w, w), QTwo))
    [] kind = "nd" -> QMul(QI(m), QDiv(QMul(w, w), QTwo))
    [] kind = "nn" -> QMul(QMul(QMul(w, w), w), QAdd(Q(1, 4), Q(n * m, 12)))
(* integral over the element of dN_a/dx_s * dN_b/dx_t  (s, t = 0: the function itself) *)
IntProd(dim, sz, a, s, b, t) ==
  LET N == NumG(dim)
      f(d) == Int1(IF s = d /\ t = d THEN "dd" ELSE IF s = d THEN "dn" ELSE IF t = d THEN "nd" ELSE "nn", N[a][d], N[b][d], sz[d])
      v2 == QMul(Vol(dim, sz), Vol(dim, sz)) IN
  QDiv(IF dim = 2 THEN QMul(f(1), f(2)) ELSE QMul(QMul(f(1), f(2)), f(3)), v2)

(* element stiffness: K[(a,i),(b,j)] = sum_pq D[p][q] * int dN_a/dx_G[p][i] dN_b/dx_G[q][j]; thick multiplies D in 2D *)
KElem(dim, sz, D, thick) ==
  LET G == GTab(dim)  ns == NStrain(dim)  nn == IF dim = 2 THEN 4 ELSE 8
      entry(r, c) ==
        LET a == ((r - 1) \div dim) + 1  i == ((r - 1) % dim) + 1  b == ((c - 1) \div dim) + 1  j == ((c - 1) % dim) + 1 IN
        QMul(thick, QSumN([p \in 1..ns |-> QSumN([q \in 1..ns |->
             IF G[p][i] = 0 \/ G[q][j] = 0 \/ QIsZero(D[p][q]) THEN QZero
             ELSE QMul(D[p][q], IntProd(dim, sz, a, G[p][i], b, G[q][j]))], 1, ns)], 1, ns)) IN
  QM(nn * dim, nn * dim, entry)
(* consistent mass (or capacity) matrix for ndof components: rho * int N_a N_b, times the out-of-plane size in 2D *)
MElem(dim, sz, rho, ndof) ==
  LET nn == IF dim = 2 THEN 4 ELSE 8
      fac == IF dim = 2 THEN QMul(rho, sz[3]) ELSE rho
      entry(r, c) ==
        LET a == ((r - 1) \div ndof) + 1  i == (r - 1) % ndof  b == ((c - 1) \div ndof) + 1  j == (c - 1) % ndof IN
        IF i # j THEN QZero ELSE QMul(fac, IntProd(dim, sz, a, 0, b, 0)) IN
  QM(nn * ndof, nn * ndof, entry)
(* Poisson: kappa * int grad N_a . grad N_b, times the out-of-plane size in 2D *)
PElem(dim, sz, kappa) ==
  LET nn == IF dim = 2 THEN 4 ELSE 8
      fac == IF dim = 2 THEN QMul(kappa, sz[3]) ELSE kappa
      entry(a, b) == QMul(fac, QSumN([d \in 1..dim |-> IntProd(dim, sz, a, d, b, d)], 1, dim)) IN
  QM(nn, nn, entry)
(* centroid strain operator (average of the Gauss-point values): engineering shear *)
BCentroid(dim, sz) ==
  LET G == GTab(dim)  N == NumG(dim)  nn == IF dim = 2 THEN 4 ELSE 8
      dN(a, s) == QDiv(QI(N[a][s]), QMul(sz[s], QI(IF dim = 2 THEN 2 ELSE 4)))     \* dN_a/dx_s at the centroid
      entry(p, c) == LET a == ((c - 1) \div dim) + 1  i == ((c - 1) % dim) + 1 IN
                     IF G[p][i] = 0 THEN QZero ELSE dN(a, G[p][i]) IN
  QM(NStrain(dim), nn * dim, entry)
(* thermal load: alpha * int B' D phi with phi = unit normal strains; thick multiplies D in 2D *)
ThermalLoad(dim, sz, D, thick, alpha) ==
  LET G == GTab(dim)  ns == NStrain(dim)  nn == IF dim = 2 THEN 4 ELSE 8  N == NumG(dim)
      DPhi == Tup([p \in 1..ns |-> QSumN([q \in 1..dim |-> D[p][q]], 1, dim)])
      \* int dN_a/dx_s dV = n_a[s] * V / (w_s * 2^(dim-1))
      intd(a, s) == QDiv(QMul(QI(N[a][s]), Vol(dim, sz)), QMul(sz[s], QI(IF dim = 2 THEN 2 ELSE 4)))
      entry(c) == LET a == ((c - 1) \div dim) + 1  i == ((c - 1) % dim) + 1 IN
                  QMul(QMul(alpha, thick), QSumN([p \in 1..ns |-> IF G[p][i] = 0 THEN QZero ELSE QMul(DPhi[p], intd(a, G[p][i]))], 1, ns)) IN
  Tup([c \in 1..(nn * dim) |-> entry(c)])

(* ---- physics, stated on the element ---- *)
NodePosE(dim, sz, a, d) == QMul(QDiv(sz[d], QTwo), QI(NumG(dim)[a][d]))      \* node a relative to the centroid
IsSymQ(X) == \A i \in 1..Len(X), j \in 1..Len(X) : X[i][j] = X[j][i]
AllZeroV(v) == \A i \in 1..Len(v) : QIsZero(v[i])
(* displacement field u(x) = Gm x + c sampled at the nodes (Gm: dim x dim rationals, c: dim rationals) *)
AffineU(dim, sz, Gm, c) ==
  LET nn == IF dim = 2 THEN 4 ELSE 8 IN
  Tup([r \in 1..(nn * dim) |-> LET a == ((r - 1) \div dim) + 1  i == ((r - 1) % dim) + 1 IN
        QAdd(c[i], QSumN([d \in 1..dim |-> QMul(Gm[i][d], NodePosE(dim, sz, a, d))], 1, dim))])
RigidModes(dim) ==   \* (gradient, translation): translations and infinitesimal rotations
  LET Z2 == <<(<<QZero, QZero>>), (<<QZero, QZero>>)>>
      Z3 == <<(<<QZero, QZero, QZero>>), (<<QZero, QZero, QZero>>), (<<QZero, QZero, QZero>>)>>
      m1 == QI(-1) IN
  IF dim = 2 THEN {<<Z2, (<<QOne, QZero>>)>>, <<Z2, (<<QZero, QOne>>)>>, <<(<<(<<QZero, m1>>), (<<QOne, QZero>>)>>), (<<QZero, QZero>>)>>}
  ELSE {<<Z3, (<<QOne, QZero, QZero>>)>>, <<Z3, (<<QZero, QOne, QZero>>)>>, <<Z3, (<<QZero, QZero, QOne>>)>>,
        <<(<<(<<QZero, m1, QZero>>), (<<QOne, QZero, QZero>>), (<<QZero, QZero, QZero>>)>>), (<<QZero, QZero, QZero>>)>>,
        <<(<<(<<QZero, QZero, m1>>), (<<QZero, QZero, QZero>>), (<<QOne, QZero, QZero>>)>>), (<<QZero, QZero, QZero>>)>>,
        <<(<<(<<QZero, QZero, QZero>>), (<<QZero, QZero, m1>>), (<<QZero, QOne, QZero>>)>>), (<<QZero, QZero, QZero>>)>>}
(* exact strain of the affine field: symmetric gradient with engineering shear, in the row order of GTab *)
ExactStrain(dim, Gm) ==
  IF dim = 2 THEN <<Gm[1][1], Gm[2][2], QAdd(Gm[1][2], Gm[2][1])>>
  ELSE <<Gm[1][1], Gm[2][2], Gm[3][3], QAdd(Gm[2][3], Gm[3][2]), QAdd(Gm[1][3], Gm[3][1]), QAdd(Gm[1][2], Gm[2][1])>>

ElementPhysics(dim, sz, mode, E, nu, thick, Grads) ==
  LET D == DMat(IF dim = 3 THEN "3d" ELSE mode, E, nu)
      K == KElem(dim, sz, D, thick)
      B == BCentroid(dim, sz)
      nn == IF dim = 2 THEN 4 ELSE 8 IN
  /\ IsSymQ(K)
  /\ \A rm \in RigidModes(dim) : AllZeroV(QMatVec(K, AffineU(dim, sz, rm[1], rm[2])))        \* rigid-body motions
  /\ \A Gm \in Grads :
       LET u == AffineU(dim, sz, Gm, Tup([i \in 1..dim |-> QOne]))
           eps == QMatVec(B, u)
           sig == QMatVec(D, eps) IN
       /\ eps = ExactStrain(dim, Gm)                                            \* affine fields are reproduced exactly
       /\ QDotV(u, QMatVec(K, u)) = QMul(QMul(Vol(dim, sz), thick), QDotV(sig, eps))   \* V * stress . strain = u'Ku (constant strain)
       /\ QLeq(QZero, QDotV(u, QMatVec(K, u)))
  \* thermal load: self-equilibrated (zero resultant force and moment) and, in plane stress and 3D, equal to K times free expansion
  /\ LET f == ThermalLoad(dim, sz, D, thick, QOne)
         force(i) == QSumN([a \in 1..nn |-> f[(a - 1) * dim + i]], 1, nn)
         moment(i, j) == QSumN([a \in 1..nn |-> QSub(QMul(NodePosE(dim, sz, a, i), f[(a - 1) * dim + j]),
                                                   QMul(NodePosE(dim, sz, a, j), f[(a - 1) * dim + i]))], 1, nn)
         Iden == Tup([i \in 1..dim |-> Tup([j \in 1..dim |-> IF i = j THEN QOne ELSE QZero])])
         uexp == AffineU(dim, sz, Iden, Tup([i \in 1..dim |-> QZero])) IN
     /\ \A i \in 1..dim : QIsZero(force(i))
     /\ \A i \in 1..dim, j \in 1..dim : QIsZero(moment(i, j))
     /\ (dim = 3 \/ mode = "stress") => f = QMatVec(K, uexp)

MassPoissonPhysics(dim, sz, rho, kappa, ndof) ==
  LET M == MElem(dim, sz, rho, ndof)
      P == PElem(dim, sz, kappa)
      nn == IF dim = 2 THEN 4 ELSE 8
      V3 == QMul(QMul(sz[1], sz[2]), sz[3]) IN
  /\ IsSymQ(M) /\ IsSymQ(P)
  \* total mass rho * V per direction (V includes the out-of-plane size in 2D)
  /\ \A c \in 0..ndof - 1 :
       QSumN([a \in 1..nn |-> QSumN([b \in 1..nn |-> M[(a - 1) * ndof + c + 1][(b - 1) * ndof + c + 1]], 1, nn)], 1, nn) = QMul(rho, V3)
  \* Poisson: constants annihilated, exact energy of a linear field
  /\ AllZeroV(QMatVec(P, Tup([a \in 1..nn |-> QOne])))
  /\ \A gv \in {Tup([d \in 1..dim |-> QI(d)]), Tup([d \in 1..dim |-> Q(IF d = 1 THEN -1 ELSE 1, 2)])} :
       LET u == Tup([a \in 1..nn |-> QSumN([d \in 1..dim |-> QMul(gv[d], NodePosE(dim, sz, a, d))], 1, dim)]) IN
       QDotV(u, QMatVec(P, u)) = QMul(QMul(kappa, V3), QDotV(gv, gv))
=============================================================================
