------------------------------ MODULE Solvers ------------------------------
(***************************************************************************)
(* Linear solvers of pymoto/solvers: what system each call must solve,      *)
(* which solver documents which matrix class, and the decision tree of      *)
(* auto_determine_solver, over exact Gaussian-integer matrices (n = 2, 3).  *)
(*                                                                          *)
(* The exact solution of op(A) x = b is x = adj(op(A)) b / det(op(A));      *)
(* TLC checks op(A) adj(op(A)) = det I on every enumerated matrix and       *)
(* prints adjugate and determinant, from which the replay harness obtains   *)
(* the expected answer of every admissible solver for any right-hand side.  *)
(***************************************************************************)
EXTENDS Num, FiniteSets, TLC, Json

CONSTANTS Mats,      \* set of square matrices (sequences of rows of Gaussian integers <<re, im>>), n in {2, 3}
          Variant

N(A) == Len(A)
El(A, i, j) == A[i][j]
MT(A) == Tup([i \in 1..N(A) |-> Tup([j \in 1..N(A) |-> A[j][i]])])
MC(A) == Tup([i \in 1..N(A) |-> Tup([j \in 1..N(A) |-> GConj(A[i][j])])])
Op(A, trans) == IF trans = "N" THEN A ELSE IF trans = "T" THEN MT(A) ELSE MC(MT(A))
MMulG(X, Y) == Tup([i \in 1..Len(X) |-> Tup([j \in 1..Len(Y[1]) |-> GSum(Tup([l \in 1..Len(Y) |-> GMul(X[i][l], Y[l][j])]))])])
MSubG(X, Y) == Tup([i \in 1..Len(X) |-> Tup([j \in 1..Len(X[1]) |-> GSub(X[i][j], Y[i][j])])])
MScaleG(c, X) == Tup([i \in 1..Len(X) |-> Tup([j \in 1..Len(X[1]) |-> GMul(c, X[i][j])])])
SubM(A, rr, cc) == Tup([i \in 1..Len(rr) |-> Tup([j \in 1..Len(cc) |-> A[rr[i]][cc[j]]])])
GNeg(a) == <<-a[1], -a[2]>>

Det(A) == IF N(A) = 1 THEN A[1][1] ELSE IF N(A) = 2 THEN GSub(GMul(A[1][1], A[2][2]), GMul(A[1][2], A[2][1]))
          ELSE GDet3(A[1], A[2], A[3])
(* adjugate: transpose of the cofactor matrix *)
Minor3(A, i, j) ==
  LET r == {1, 2, 3} \ {i}  c == {1, 2, 3} \ {j}
      r1 == CHOOSE x \in r : \A y \in r : x <= y   r2 == CHOOSE x \in r : \A y \in r : x >= y
      c1 == CHOOSE x \in c : \A y \in c : x <= y   c2 == CHOOSE x \in c : \A y \in c : x >= y IN
  GSub(GMul(A[r1][c1], A[r2][c2]), GMul(A[r1][c2], A[r2][c1]))
Adj(A) == IF N(A) = 1 THEN <<(<<(<<1, 0>>)>>)>> ELSE IF N(A) = 2 THEN <<(<<A[2][2], GNeg(A[1][2])>>), (<<GNeg(A[2][1]), A[1][1]>>)>>
          ELSE Tup([i \in 1..3 |-> Tup([j \in 1..3 |-> IF (i + j) % 2 = 0 THEN Minor3(A, j, i) ELSE GNeg(Minor3(A, j, i))])])
Iden(n, d) == Tup([i \in 1..n |-> Tup([j \in 1..n |-> IF i = j THEN d ELSE GZero])])

(* ---- matrix classes ---- *)
IsCplx(A) == \E i, j \in 1..N(A) : A[i][j][2] # 0
IsDiag(A) == \A i, j \in 1..N(A) : i # j => GIsZero(A[i][j])
IsSym(A) == MT(A) = A
IsHerm(A) == MC(MT(A)) = A
IsLower(A) == \A i, j \in 1..N(A) : i < j => GIsZero(A[i][j])
IsUpper(A) == \A i, j \in 1..N(A) : i > j => GIsZero(A[i][j])
RealPos(z) == z[2] = 0 /\ z[1] > 0
(* Hermitian positive definite by leading principal minors *)
Lead2(A) == GSub(GMul(A[1][1], A[2][2]), GMul(A[1][2], A[2][1]))
IsHPD(A) == IsHerm(A) /\ RealPos(A[1][1]) /\ RealPos(Lead2(A)) /\ (N(A) = 2 \/ RealPos(Det(A)))
PosDiag(A) == (\A i \in 1..N(A) : A[i][i][2] = 0 /\ A[i][i][1] > 0) \/ (\A i \in 1..N(A) : A[i][i][2] = 0 /\ A[i][i][1] < 0)
(* numpy compares complex diagonals with > 0 only for real matrices; for complex matrices the code path is taken on the  *)
(* real parts of a Hermitian matrix, whose diagonal is real                                                               *)
NonSingular(A) == ~GIsZero(Det(A))

(* ---- which solver documents which class ---- *)
SolverNames == {"SolverDiagonal", "SolverDenseQR", "SolverDenseLU", "SolverDenseCholesky", "SolverDenseLDL", "SolverSparseLU", "CG"}
Admissible(s, A) ==
  /\ NonSingular(A)
  /\ CASE s = "SolverDiagonal" -> IsDiag(A)
       [] s \in {"SolverDenseQR", "SolverDenseLU", "SolverSparseLU"} -> TRUE
       [] s = "SolverDenseCholesky" -> IsHerm(A)             \* positive definite, or the documented LDL fall-back
       [] s = "SolverDenseLDL" -> IsHerm(A) \/ IsSym(A)
       [] s = "CG" -> IsHPD(A)

(* ---- auto_determine_solver (auto_determine.py), optional back-ends (Pardiso, CHOLMOD, CVXOPT) absent ---- *)
AutoSolver(A, sparse) ==
  IF IsDiag(A) THEN "SolverDiagonal"
  ELSE IF sparse THEN "SolverSparseLU"
  ELSE LET herm == IsHerm(A)  sym == IsSym(A) IN
       IF herm /\ Variant # "hermitian_as_general" THEN (IF PosDiag(A) THEN "SolverDenseCholesky" ELSE "SolverDenseLDL")
       ELSE IF sym THEN "SolverDenseLDL"
       ELSE "SolverDenseLU"
(* an LDL solver constructed by auto_determine is told whether to use the Hermitian or the symmetric factorisation *)
AutoLDLHermitian(A) == IsHerm(A)

-----------------------------------------------------------------------------
VARIABLES mat, done
vars == <<mat, done>>
Init == mat \in Mats /\ done = FALSE
Next == ~done /\ done' = TRUE /\ UNCHANGED mat
Spec == Init /\ [][Next]_vars

AdjCorrect == \A t \in {"N", "T", "H"} : MMulG(Op(mat, t), Adj(Op(mat, t))) = Iden(N(mat), Det(Op(mat, t)))
Group ==
  /\ Op(Op(mat, "T"), "T") = mat /\ Op(Op(mat, "H"), "H") = mat
  /\ Op(mat, "H") = MC(Op(mat, "T"))
  /\ IsSym(mat) => Op(mat, "T") = mat
  /\ IsHerm(mat) => Op(mat, "H") = mat
  /\ Adj(Op(mat, "T")) = MC(Adj(Op(mat, "H")))        \* A^T x = b  <=>  A^H conj(x) = conj(b)
  /\ Det(Op(mat, "T")) = Det(mat) /\ Det(Op(mat, "H")) = GConj(Det(mat))
AutoAdmissible == NonSingular(mat) => (Admissible(AutoSolver(mat, FALSE), mat) /\ Admissible(AutoSolver(mat, TRUE), mat))

(* ---- partitioned systems (SystemOfEquations, StaticCondensation): index partitions of 1..n ---- *)
SortedSeq(S) == CHOOSE q \in [1..Cardinality(S) -> S] : \A i, j \in 1..Cardinality(S) : i < j => q[i] < q[j]
Parts2 == {<<Tup(SortedSeq(F)), Tup(SortedSeq((1..N(mat)) \ F))>> : F \in (SUBSET (1..N(mat))) \ {{}, 1..N(mat)}}
MF3 == {<<Tup(SortedSeq(M)), Tup(SortedSeq(F))>> : M \in (SUBSET (1..N(mat))) \ {{}}, F \in (SUBSET (1..N(mat))) \ {{}}}
Disjoint(pr) == {pr[1][i] : i \in 1..Len(pr[1])} \cap {pr[2][i] : i \in 1..Len(pr[2])} = {}
(* scaled Schur complement det(A_ff) A_mm - A_mf adj(A_ff) A_fm *)
SchurNum(A, m, f) == MSubG(MScaleG(Det(SubM(A, f, f)), SubM(A, m, m)), MMulG(MMulG(SubM(A, m, f), Adj(SubM(A, f, f))), SubM(A, f, m)))
LinSysOK ==
  \A pr \in Parts2 : LET Aff == SubM(mat, pr[1], pr[1]) IN
     NonSingular(Aff) => /\ MMulG(Aff, Adj(Aff)) = Iden(Len(pr[1]), Det(Aff))
                         /\ MMulG(MT(Aff), Adj(MT(Aff))) = Iden(Len(pr[1]), Det(Aff))
(* the condensed matrix reproduces the main-dof response: (M^-1)_mm = Ared^-1 for M the (main + free) block *)
SchurOK ==
  \A pr \in {q \in MF3 : Disjoint(q)} :
     LET m == pr[1]  f == pr[2]  mf == m \o f
         Mb == SubM(mat, mf, mf)
         Aff == SubM(mat, f, f)
         mm == Tup([i \in 1..Len(m) |-> i]) IN
     (NonSingular(Aff) /\ NonSingular(Mb)) =>
        MMulG(SubM(Adj(Mb), mm, mm), SchurNum(mat, m, f)) = Iden(Len(m), GMul(Det(Mb), Det(Aff)))

(* ---- adjoints of LinSolve (x = A^-1 b) and Inverse (B = A^-1), in integers scaled by det ---- *)
(* seeds and right-hand sides: fixed small Gaussian-integer vectors / matrices                         *)
BVec(n, cx) == Tup([i \in 1..n |-> <<(2 * i - 3), IF cx THEN (i % 2) ELSE 0>>])
WVec(n, cx) == Tup([i \in 1..n |-> <<(3 - i), IF cx THEN (1 - i) ELSE 0>>])
WMat(n, cx) == Tup([i \in 1..n |-> Tup([j \in 1..n |-> <<(i - 2 * j + 1), IF cx THEN ((i + j) % 2) ELSE 0>>])])
MatVecG(X, v) == Tup([i \in 1..Len(X) |-> GSum(Tup([l \in 1..Len(v) |-> GMul(X[i][l], v[l])]))])
DotG(u, v) == GSum(Tup([l \in 1..Len(v) |-> GMul(u[l], v[l])]))
XNum(A, b) == MatVecG(Adj(A), b)                      \* det * x
LamNum(A, w) == MatVecG(Adj(MT(A)), w)                \* det * lambda, lambda = A^-T w
UnitV(n, k) == Tup([i \in 1..n |-> IF i = k THEN <<1, 0>> ELSE GZero])
(* LinSolve: sensitivity dA = -lambda x', db = lambda.  Adjoint identity (holomorphic, so as complex numbers): for every   *)
(* unit direction E_ij of A and e_k of b:  sum(dA * V) + db . vb = w . D y  with  D y = A^-1 (vb - V x).                    *)
(* Multiplied by det^2:  -lam_i x_j + det lam_k  =  w . adj (det vb - V xnum)                                               *)
LinSolveAdjointOK ==
  NonSingular(mat) =>
    \A cx \in BOOLEAN :
      LET n == N(mat)  b == BVec(n, cx)  w == WVec(n, cx)  xn == XNum(mat, b)  ln == LamNum(mat, w)  d == Det(mat) IN
      /\ \A i \in 1..n, j \in 1..n :       \* direction E_ij in A
           GNeg(GMul(ln[i], xn[j])) = DotG(w, MatVecG(Adj(mat), Tup([r \in 1..n |-> IF r = i THEN GNeg(xn[j]) ELSE GZero])))
      /\ \A k \in 1..n :                    \* direction e_k in b
           GMul(d, ln[k]) = GMul(d, DotG(w, MatVecG(Adj(mat), UnitV(n, k))))
(* Inverse: dA = -B' W B'; identity sum(dA * E_ij) = sum(W * D B), D B = -B E_ij B; times det^2 *)
InverseAdjointOK ==
  NonSingular(mat) =>
    \A cx \in BOOLEAN :
      LET n == N(mat)  W == WMat(n, cx)  Ad == Adj(mat)
          dAn == MMulG(MMulG(MT(Ad), W), MT(Ad)) IN     \* -det^2 dA
      \A i \in 1..n, j \in 1..n :
         dAn[i][j] = GSum(Tup([p \in 1..n |-> GSum(Tup([q \in 1..n |-> GMul(W[p][q], GMul(Ad[p][i], Ad[j][q]))]))]))
EmitAdj == (done /\ NonSingular(mat)) =>
  PrintT(<<"ADJ", ToJson([A |-> mat, cls |-> [cplx |-> IsCplx(mat), sym |-> IsSym(mat), herm |-> IsHerm(mat), hpd |-> IsHPD(mat)], det |-> Det(mat),
        cases |-> {[cx |-> cx, b |-> BVec(N(mat), cx), w |-> WVec(N(mat), cx), W |-> WMat(N(mat), cx),
                    xnum |-> XNum(mat, BVec(N(mat), cx)), lamnum |-> LamNum(mat, WVec(N(mat), cx)),
                    dAinvnum |-> MMulG(MMulG(MT(Adj(mat)), WMat(N(mat), cx)), MT(Adj(mat)))] : cx \in BOOLEAN}])>>)

EmitLS == (done /\ NonSingular(mat)) =>
  PrintT(<<"LS", ToJson([A |-> mat,
        cls |-> [cplx |-> IsCplx(mat), diag |-> IsDiag(mat), sym |-> IsSym(mat), herm |-> IsHerm(mat), hpd |-> IsHPD(mat)],
        sol |-> [t \in {"N", "T", "H"} |-> [adj |-> Adj(Op(mat, t)), det |-> Det(Op(mat, t))]],
        parts |-> {[f |-> pr[1], p |-> pr[2], adj |-> Adj(SubM(mat, pr[1], pr[1])), det |-> Det(SubM(mat, pr[1], pr[1])),
                    adjT |-> Adj(MT(SubM(mat, pr[1], pr[1])))] : pr \in {q \in Parts2 : NonSingular(SubM(mat, q[1], q[1]))}},
        schur |-> {[m |-> pr[1], f |-> pr[2], num |-> SchurNum(mat, pr[1], pr[2]), det |-> Det(SubM(mat, pr[2], pr[2]))] :
                    pr \in {q \in MF3 : Disjoint(q) /\ NonSingular(SubM(mat, q[2], q[2]))}}])>>)

Emit == (done /\ NonSingular(mat)) =>
  PrintT(<<"MAT", ToJson([A |-> mat,
        cls |-> [cplx |-> IsCplx(mat), diag |-> IsDiag(mat), sym |-> IsSym(mat), herm |-> IsHerm(mat), hpd |-> IsHPD(mat),
                 lower |-> IsLower(mat), upper |-> IsUpper(mat)],
        solvers |-> {s \in SolverNames : Admissible(s, mat)},
        auto |-> [dense |-> AutoSolver(mat, FALSE), sparse |-> AutoSolver(mat, TRUE)],
        sol |-> [t \in {"N", "T", "H"} |-> [adj |-> Adj(Op(mat, t)), det |-> Det(Op(mat, t))]]])>>)
=============================================================================
