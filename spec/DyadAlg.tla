------------------------------ MODULE DyadAlg ------------------------------
(***************************************************************************)
(* DyadCarrier (pymoto/common/dyadcarrier.py) specified by the dense       *)
(* matrix it represents.  Three carrier slots A, B, R hold dense           *)
(* Gaussian-integer matrices (with a complex/real type flag and a shape    *)
(* that may be unset for the empty carrier); every public operation is     *)
(* defined by ordinary dense matrix algebra.  Operation sequences are      *)
(* enumerated by TLC and replayed on real DyadCarrier objects; after every *)
(* operation all three slots and the value returned are compared, so an    *)
(* operation that changes an operand other than its in-place target is     *)
(* seen as well.                                                           *)
(***************************************************************************)
EXTENDS Num, TLC, Json

CONSTANTS Inits,     \* sequence of initial configurations [Au, Av, Bu, Bv, Bshape]: lists of Gaussian-integer vectors
          Ops,       \* enabled operation names
          Depth, Record

VARIABLES A, B, R, out, last, hist
vars == <<A, B, R, out, last, hist>>
Slots == {"A", "B", "R"}

(* ---- dense matrices: sequences of rows of Gaussian integers ---- *)
MZero(r, c) == Tup([i \in 1..r |-> Tup([j \in 1..c |-> GZero])])
MAdd(X, Y) == Tup([i \in 1..Len(X) |-> Tup([j \in 1..Len(X[i]) |-> GAdd(X[i][j], Y[i][j])])])
MMap(X, f(_)) == Tup([i \in 1..Len(X) |-> Tup([j \in 1..Len(X[i]) |-> f(X[i][j])])])
GNeg(a) == <<-a[1], -a[2]>>
GRe(a) == <<a[1], 0>>
GIm(a) == <<a[2], 0>>
MNeg(X) == MMap(X, GNeg)
MScale(c, X) == Tup([i \in 1..Len(X) |-> Tup([j \in 1..Len(X[i]) |-> GMul(c, X[i][j])])])
MT(X, r, c) == Tup([j \in 1..c |-> Tup([i \in 1..r |-> X[i][j]])])
MMul(X, Y, r, k, c) == Tup([i \in 1..r |-> Tup([j \in 1..c |-> GSum(Tup([l \in 1..k |-> GMul(X[i][l], Y[l][j])]))])])
Outer(u, v) == Tup([i \in 1..Len(u) |-> Tup([j \in 1..Len(v) |-> GMul(u[i], v[j])])])
RECURSIVE SumOuter(_, _, _, _)
SumOuter(us, vs, r, c) == IF us = <<>> THEN MZero(r, c) ELSE MAdd(Outer(us[1], vs[1]), SumOuter(Tail(us), Tail(vs), r, c))
VecCplx(v) == \E i \in 1..Len(v) : v[i][2] # 0
VecZero(v) == \A i \in 1..Len(v) : GIsZero(v[i])
(* dtype of a carrier built from vector lists: complex iff a stored (non-zero) dyad has a complex vector *)
ListCplx(us, vs) == \E k \in 1..Len(us) : ~VecZero(us[k]) /\ ~VecZero(vs[k]) /\ (VecCplx(us[k]) \/ VecCplx(vs[k]))
MCplxVals(X) == \E i \in 1..Len(X) : \E j \in 1..Len(X[i]) : X[i][j][2] # 0

(* a carrier value: r, c = -1 for the empty carrier whose shape is not set *)
Carrier(r, c, d, cplx) == [r |-> r, c |-> c, d |-> d, cplx |-> cplx]
Empty == Carrier(-1, -1, <<>>, FALSE)
IsEmpty(X) == X.r < 0
FromLists(us, vs, shape) ==
  IF shape[1] < 0 THEN Empty
  ELSE Carrier(shape[1], shape[2], SumOuter(us, vs, shape[1], shape[2]), ListCplx(us, vs))

(* fixed dense operands by shape (values small, complex variant selected by cx) *)
DenseM(r, c, cx) == Tup([i \in 1..r |-> Tup([j \in 1..c |-> <<i - j + 1, IF cx THEN (i + j) % 2 ELSE 0>>])])
DenseV(n, cx) == Tup([i \in 1..n |-> <<2 - i, IF cx THEN i % 2 ELSE 0>>])
Scalars == {<<2, 0>>, <<-1, 0>>, <<0, 1>>, <<0, 0>>}

Get(s) == IF s = "A" THEN A ELSE IF s = "B" THEN B ELSE R

Step(op, args, a2, b2, r2, o2) ==
  /\ A' = a2 /\ B' = b2 /\ R' = r2 /\ out' = o2
  /\ last' = [op |-> op, args |-> args]
  /\ hist' = IF Record THEN Append(hist, [op |-> op, args |-> args, A |-> a2, B |-> b2, R |-> r2, out |-> o2]) ELSE hist

SetR(op, args, val) == Step(op, args, A, B, val, [kind |-> "none"])
SetOut(op, args, o) == Step(op, args, A, B, R, o)
InPlace(op, args, s, val) == Step(op, args, IF s = "A" THEN val ELSE A, IF s = "B" THEN val ELSE B, IF s = "R" THEN val ELSE R, [kind |-> "none"])

Compatible(X, Y) == IsEmpty(X) \/ IsEmpty(Y) \/ (X.r = Y.r /\ X.c = Y.c)
AddC(X, Y, sign) ==   \* X + sign*Y
  IF IsEmpty(Y) THEN X
  ELSE IF IsEmpty(X) THEN Carrier(Y.r, Y.c, IF sign = 1 THEN Y.d ELSE MNeg(Y.d), Y.cplx)
  ELSE Carrier(X.r, X.c, MAdd(X.d, IF sign = 1 THEN Y.d ELSE MNeg(Y.d)), X.cplx \/ Y.cplx)

RowSel(kind, n) == CASE kind = "all" -> Tup([i \in 1..n |-> i]) [] kind = "first" -> <<1>> [] kind = "tail" -> Tup([i \in 1..n-1 |-> i + 1])
                     [] kind = "rev" -> Tup([i \in 1..n |-> n + 1 - i])
SubM(X, rows, cols) == Tup([i \in 1..Len(rows) |-> Tup([j \in 1..Len(cols) |-> X[rows[i]][cols[j]]])])
Frob(X, M) == GSum(Tup([i \in 1..Len(X) |-> GSum(Tup([j \in 1..Len(X[i]) |-> GMul(X[i][j], M[i][j])]))]))

-----------------------------------------------------------------------------
Init ==
  /\ \E k \in 1..Len(Inits) :
       /\ A = FromLists(Inits[k].Au, Inits[k].Av, <<2, 3>>)
       /\ B = FromLists(Inits[k].Bu, Inits[k].Bv, Inits[k].Bshape)
  /\ R = Empty /\ out = [kind |-> "none"]
  /\ last = [op |-> "Init", args |-> <<>>]
  /\ hist = IF Record THEN <<[op |-> "Init", args |-> <<>>, A |-> A, B |-> B, R |-> R, out |-> out]>> ELSE <<>>

En(op) == op \in Ops

Binary ==
  \E x \in Slots, y \in Slots : LET X == Get(x)  Y == Get(y) IN
    /\ Compatible(X, Y)
    /\ \/ En("add") /\ SetR("add", <<x, y>>, AddC(X, Y, 1))
       \/ En("sub") /\ SetR("sub", <<x, y>>, AddC(X, Y, -1))
       \/ En("iadd") /\ x # "B" /\ InPlace("iadd", <<x, y>>, x, AddC(X, Y, 1))
       \/ En("isub") /\ x # "B" /\ InPlace("isub", <<x, y>>, x, AddC(X, Y, -1))

Unary ==
  \E x \in Slots : LET X == Get(x) IN
    \/ En("neg") /\ SetR("neg", <<x>>, IF IsEmpty(X) THEN X ELSE Carrier(X.r, X.c, MNeg(X.d), X.cplx))
    \/ En("copy") /\ SetR("copy", <<x>>, X)
    \* adding / subtracting the scalar zero (as sum() does) gives an independent copy
    \/ En("addzero") /\ SetR("addzero", <<x>>, X)
    \/ En("raddzero") /\ SetR("raddzero", <<x>>, X)
    \/ En("subzero") /\ ~IsEmpty(X) /\ SetR("subzero", <<x>>, X)
    \/ En("rsubzero") /\ ~IsEmpty(X) /\ SetR("rsubzero", <<x>>, Carrier(X.r, X.c, MNeg(X.d), X.cplx))
    \/ En("pos") /\ SetR("pos", <<x>>, X)
    \/ En("T") /\ SetR("T", <<x>>, IF IsEmpty(X) THEN X ELSE Carrier(X.c, X.r, MT(X.d, X.r, X.c), X.cplx))
    \/ En("conj") /\ SetR("conj", <<x>>, IF IsEmpty(X) THEN X ELSE Carrier(X.r, X.c, MMap(X.d, GConj), X.cplx))
    \/ En("real") /\ ~IsEmpty(X) /\ SetR("real", <<x>>, Carrier(X.r, X.c, MMap(X.d, GRe), FALSE))
    \/ En("imag") /\ ~IsEmpty(X) /\ SetR("imag", <<x>>, Carrier(X.r, X.c, MMap(X.d, GIm), FALSE))
    \/ \E c \in Scalars :
         \/ En("lmul") /\ ~IsEmpty(X) /\ SetR("lmul", <<x, c>>, Carrier(X.r, X.c, MScale(c, X.d), X.cplx \/ c[2] # 0))
         \/ En("rmul") /\ ~IsEmpty(X) /\ SetR("rmul", <<x, c>>, Carrier(X.r, X.c, MScale(c, X.d), X.cplx \/ c[2] # 0))
    \/ \E cx \in BOOLEAN :
         /\ ~IsEmpty(X)
         /\ \/ En("matmul") /\ SetR("matmul", <<x, cx>>, Carrier(X.r, 2, MMul(X.d, DenseM(X.c, 2, cx), X.r, X.c, 2), X.cplx \/ cx))
            \/ En("rmatmul") /\ SetR("rmatmul", <<x, cx>>, Carrier(2, X.c, MMul(DenseM(2, X.r, cx), X.d, 2, X.r, X.c), X.cplx \/ cx))
            \/ En("matvec") /\ SetOut("matvec", <<x, cx>>, [kind |-> "vec", cplx |-> (X.cplx \/ cx),
                   d |-> Tup([i \in 1..X.r |-> GSum(Tup([j \in 1..X.c |-> GMul(X.d[i][j], DenseV(X.c, cx)[j])]))])])
            \/ En("vecmat") /\ SetOut("vecmat", <<x, cx>>, [kind |-> "vec", cplx |-> (X.cplx \/ cx),
                   d |-> Tup([j \in 1..X.c |-> GSum(Tup([i \in 1..X.r |-> GMul(DenseV(X.r, cx)[i], X.d[i][j])]))])])
            \/ En("contract_dense") /\ SetOut("contract_dense", <<x, cx>>, [kind |-> "scal", cplx |-> (X.cplx \/ cx), d |-> Frob(X.d, DenseM(X.r, X.c, cx))])
            \/ En("contract_sparse") /\ ~cx /\ SetOut("contract_sparse", <<x, cx>>, [kind |-> "scal", cplx |-> X.cplx, d |-> Frob(X.d, DenseM(X.r, X.c, FALSE))])
            \/ En("contract_batch") /\ X.r >= 2 /\ X.c >= 2 /\ SetOut("contract_batch", <<x, cx>>,
                   \* two batches: the leading 2x2 block with rows/cols (1,2),(1,2) and (2,1),(2,1) reversed
                   [kind |-> "vec", cplx |-> (X.cplx \/ cx),
                    d |-> <<Frob(SubM(X.d, <<1, 2>>, <<1, 2>>), DenseM(2, 2, cx)), Frob(SubM(X.d, <<2, 1>>, <<2, 1>>), DenseM(2, 2, cx))>>])
    \/ /\ ~IsEmpty(X) /\ X.r = X.c /\ En("trace")
       /\ SetOut("trace", <<x>>, [kind |-> "scal", cplx |-> X.cplx, d |-> GSum(Tup([i \in 1..X.r |-> X.d[i][i]]))])
    \/ \E k \in {-1, 0, 1} :
         /\ ~IsEmpty(X) /\ En("diag")
         /\ LET us == IF k < 0 THEN -k ELSE 0   vs == IF k > 0 THEN k ELSE 0
                n == IF X.r - us < X.c - vs THEN X.r - us ELSE X.c - vs IN
            SetOut("diag", <<x, k>>, [kind |-> "vec", cplx |-> X.cplx, d |-> Tup([i \in 1..(IF n < 0 THEN 0 ELSE n) |-> X.d[us + i][vs + i]])])
    \/ \E i \in 1..2, j \in 1..2 :
         /\ ~IsEmpty(X) /\ En("elem") /\ i <= X.r /\ j <= X.c
         /\ SetOut("elem", <<x, i, j>>, [kind |-> "scal", cplx |-> X.cplx, d |-> X.d[i][j]])
    \/ \E rk \in {"all", "first", "tail", "rev"}, ck \in {"all", "first", "tail"} :
         /\ ~IsEmpty(X) /\ En("slice") /\ ~(rk = "all" /\ ck = "all")
         /\ (rk = "tail" => X.r >= 2) /\ (ck = "tail" => X.c >= 2)
         /\ LET rows == RowSel(rk, X.r)  cols == RowSel(ck, X.c) IN
            SetR("slice", <<x, rk, ck>>, Carrier(Len(rows), Len(cols), SubM(X.d, rows, cols), X.cplx))
    \/ /\ ~IsEmpty(X) /\ En("fancy") /\ X.r >= 2 /\ X.c >= 2
       /\ SetOut("fancy", <<x>>, [kind |-> "vec", cplx |-> X.cplx, d |-> <<X.d[1][2], X.d[2][1]>>])    \* X[[0,1],[1,0]]
    \/ \E i \in 1..2 :
         /\ ~IsEmpty(X) /\ x # "B"
         /\ \/ En("zrows") /\ i <= X.r /\ InPlace("zrows", <<x, i>>, x,
                   Carrier(X.r, X.c, Tup([p \in 1..X.r |-> IF p = i THEN Tup([q \in 1..X.c |-> GZero]) ELSE X.d[p]]), X.cplx))
            \/ En("zcols") /\ i <= X.c /\ InPlace("zcols", <<x, i>>, x,
                   Carrier(X.r, X.c, Tup([p \in 1..X.r |-> Tup([q \in 1..X.c |-> IF q = i THEN GZero ELSE X.d[p][q]])]), X.cplx))

Finish ==
  /\ Record /\ Len(hist) = Depth + 1 /\ last.op # "Finish"
  /\ last' = [op |-> "Finish", args |-> <<>>]
  /\ UNCHANGED <<A, B, R, out, hist>>

Next == Finish \/ ((Len(hist) < Depth + 1 \/ ~Record) /\ (Binary \/ Unary))
Spec == Init /\ [][Next]_vars
DepthBound == TLCGet("level") <= Depth + 1

-----------------------------------------------------------------------------
WellFormed(X) == IsEmpty(X) \/ (Len(X.d) = X.r /\ \A i \in 1..X.r : Len(X.d[i]) = X.c)
ShapeClosure == WellFormed(A) /\ WellFormed(B) /\ WellFormed(R)
(* complex-valued data only in carriers typed complex *)
TypeSound == \A s \in Slots : LET X == Get(s) IN (~IsEmpty(X) /\ MCplxVals(X.d)) => X.cplx
(* no operation changes an operand other than the target of an in-place operation *)
Frame == [][/\ last'.op \notin {"iadd", "isub", "zrows", "zcols", "Finish"} => (A' = A /\ B' = B)
            /\ last'.op \in {"iadd", "isub", "zrows", "zcols"} =>
                 \A s \in Slots \ {last'.args[1]} : (IF s = "A" THEN A' = A ELSE IF s = "B" THEN B' = B ELSE R' = R)]_vars

Emit == (Record /\ last.op = "Finish") => PrintT(<<"BEH", ToJson([steps |-> hist])>>)
=============================================================================
