-------------------------------- MODULE Optim --------------------------------
(***************************************************************************)
(* Optimisers of pymoto: the MMA sub-problem set-up (common/mma.py,         *)
(* MMA.mmasub) and the optimality-criteria update (routines.py,             *)
(* minimize_oc), in exact rational arithmetic.                              *)
(*                                                                          *)
(* Operational: asymptote offsets adapt by x1.2 / x0.7 depending on the     *)
(* sign of (x - xold1)(xold1 - xold2) and are clipped to                    *)
(* [1/asybound^2, asybound]; low/upp = x -/+ offset*dx; alfa = max(low +    *)
(* albefa*shift, x - move*dx, xmin), beta = min(upp - albefa*shift, x +     *)
(* move*dx, xmax); xold2' = xold1, xold1' = x.  OC: x' = clip(candidate,    *)
(* max(xmin, x - move), min(xmax, x + move)).                               *)
(* EmitSetup prints every case for replay on the real MMA.mmasub.           *)
(* Declarative (C10 / C17): the asymptotes strictly enclose the admissible  *)
(* interval, which lies in [xmin, xmax], contains x and respects the move   *)
(* limit; bounds given per signal or per variable expand to the             *)
(* per-variable vector; the design vector splits back to the signals.       *)
(***************************************************************************)
EXTENDS Num, FiniteSets, TLC, Json

CONSTANTS XGrid,      \* rationals in [0, 1]: positions of x, xold1, xold2 relative to [xmin, xmax]
          Bounds,     \* set of <<xmin, xmax>> rational pairs with xmin < xmax
          Offsets,    \* reachable offsets before the update
          Albefas, Moves, AsyBound, AsyIncr, AsyDecr,
          Variant

QClip(v, lo, hi) == QMax(lo, QMin(v, hi))
Sgn(qv) == IF QIsZero(qv) THEN 0 ELSE IF QLess(qv, QZero) THEN -1 ELSE 1

OffsetUpdate(off, x, xo1, xo2) ==
  LET z == Sgn(QMul(QSub(x, xo1), QSub(xo1, xo2)))
      o2 == IF z > 0 THEN QMul(off, AsyIncr) ELSE IF z < 0 THEN QMul(off, AsyDecr) ELSE off IN
  QClip(o2, QDiv(QOne, QMul(AsyBound, AsyBound)), AsyBound)

SubSetup(x, off, xmin, xmax, albefa, move) ==
  LET dx == QSub(xmax, xmin)
      shift == QMul(off, dx)
      low == QSub(x, shift)  upp == QAdd(x, shift)
      alfa == QMax(QMax(QAdd(low, QMul(albefa, shift)), QSub(x, QMul(move, dx))), IF Variant = "no_xmin" THEN low ELSE xmin)
      beta == QMin(QMin(QSub(upp, QMul(albefa, shift)), QAdd(x, QMul(move, dx))), xmax) IN
  [low |-> low, upp |-> upp, alfa |-> alfa, beta |-> beta, dx |-> dx]

VARIABLES st, phase
vars == <<st, phase>>
Init == phase = "pick" /\ st = <<>>
Pick == /\ phase = "pick" /\ phase' = "eval"
        /\ \E b \in Bounds, gx \in XGrid, g1 \in XGrid, g2 \in XGrid, off \in Offsets, al \in Albefas, mv \in Moves, first \in BOOLEAN :
             LET at(g) == QAdd(b[1], QMul(g, QSub(b[2], b[1]))) IN
             st' = [xmin |-> b[1], xmax |-> b[2], x |-> at(gx), xo1 |-> at(g1), xo2 |-> at(g2), off |-> off, albefa |-> al, move |-> mv, first |-> first]
Next == Pick
Spec == Init /\ [][Next]_vars

Enclosure ==
  phase = "eval" =>
    LET off2 == IF st.first THEN st.off ELSE OffsetUpdate(st.off, st.x, st.xo1, st.xo2)
        s == SubSetup(st.x, off2, st.xmin, st.xmax, st.albefa, st.move)
        mvd == QMul(st.move, s.dx) IN
    /\ QLeq(QDiv(QOne, QMul(AsyBound, AsyBound)), off2) /\ QLeq(off2, AsyBound)     \* offsets stay in their band
    /\ QLess(s.low, s.alfa) /\ QLeq(s.alfa, st.x) /\ QLeq(st.x, s.beta) /\ QLess(s.beta, s.upp)
    /\ QLeq(st.xmin, s.alfa) /\ QLeq(s.beta, st.xmax)
    /\ QLeq(QSub(s.beta, st.x), mvd) /\ QLeq(QSub(st.x, s.alfa), mvd)

(* one case of the sub-problem set-up for replay on MMA.mmasub: the state before the call and what the call must produce *)
EmitSetup ==
  phase = "eval" =>
    LET off2 == IF st.first THEN st.off ELSE OffsetUpdate(st.off, st.x, st.xo1, st.xo2)
        s == SubSetup(st.x, off2, st.xmin, st.xmax, st.albefa, st.move) IN
    PrintT(<<"SETUP", ToJson([st |-> st, off2 |-> off2, low |-> s.low, upp |-> s.upp, alfa |-> s.alfa, beta |-> s.beta])>>)

(* OC: any candidate value is clipped into the admissible interval, which is non-empty and within the bounds *)
OCStep ==
  phase = "eval" =>
    \A cand \in {QZero, st.xo1, QMul(QI(3), st.xo2), st.xmax} :      \* arbitrary non-negative candidates
      LET lo == QMax(st.xmin, QSub(st.x, st.move))  hi == QMin(st.xmax, QAdd(st.x, st.move))
          xn == QClip(cand, lo, hi) IN
      /\ QLeq(lo, hi)
      /\ QLeq(st.xmin, xn) /\ QLeq(xn, st.xmax)
      /\ QLeq(QSub(xn, st.x), st.move) /\ QLeq(QSub(st.x, xn), st.move)

-----------------------------------------------------------------------------
(* bounds / move limits given as one number, one per signal or one per variable; design vector <-> signals *)
RECURSIVE SumLen(_, _)
SumLen(lens, k) == IF k = 0 THEN 0 ELSE lens[k] + SumLen(lens, k - 1)
NVar(lens) == SumLen(lens, Len(lens))
SigOf(lens, j) == CHOOSE s \in 1..Len(lens) : SumLen(lens, s - 1) < j /\ j <= SumLen(lens, s)
Expand(spec, lens) ==
  IF spec.kind = "scalar" THEN Tup([j \in 1..NVar(lens) |-> spec.v])
  ELSE IF spec.kind = "persignal" THEN Tup([j \in 1..NVar(lens) |-> spec.v[SigOf(lens, j)]])
  ELSE spec.v
SplitBack(xs, lens) == Tup([s \in 1..Len(lens) |-> SubSeq(xs, SumLen(lens, s - 1) + 1, SumLen(lens, s))])
RECURSIVE Concat(_)
Concat(parts) == IF parts = <<>> THEN <<>> ELSE parts[1] \o Concat(Tail(parts))
SplitRoundTrip == \A lens \in {<<3>>, <<1, 2>>, <<2, 1, 1>>, <<1, 1>>} :
                    LET xs == Tup([j \in 1..NVar(lens) |-> 10 * j]) IN Concat(SplitBack(xs, lens)) = xs
=============================================================================
