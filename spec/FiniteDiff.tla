----------------------------- MODULE FiniteDiff -----------------------------
(***************************************************************************)
(* finite_difference of pymoto/routines.py, transcribed step by step, on    *)
(* networks of modules with exactly known Jacobians over the Gaussian       *)
(* rationals (so a dyadic perturbation gives exact difference quotients).   *)
(*                                                                          *)
(* Procedure (routines.py:23-285): select the sub-network between the first *)
(* module that uses an input of interest and the last that produces an      *)
(* output of interest; run the modules before it once; reset; response;     *)
(* for every output: seed, sensitivity, store the input sensitivities,      *)
(* reset; for every input and every entry (non-zero entries only by         *)
(* default): perturb by dx (times |x| if relative), response, report        *)
(* (analytical, numerical) per output, restore; for complex entries the     *)
(* same in the imaginary direction.                                         *)
(* Declarative (C19): afterwards every input equals its saved value, no     *)
(* sensitivity is set, every perturbed entry was reported once per output   *)
(* (twice for complex entries), and a report matches iff the module's       *)
(* adjoint is right (up to the exactly known second-order term).            *)
(***************************************************************************)
EXTENDS Num, FiniteSets, TLC, Json

CONSTANTS Cases   \* set of records [prog, nsig, init, from, to, dx, rel, keepzero, df]
                  \* prog: sequence of [k, i, o]; init: [sig -> [scal, v]] for sources (others unset);
                  \* from / to: sequences of signal ids; dx: rational; df: [position in `to` -> seed vector]

Unset == [scal |-> FALSE, v |-> <<>>]
CR(n) == <<QI(n), QZero>>           \* real Gaussian rational from an integer
CQ(q) == <<q, QZero>>
VecMap2(a, b, f(_, _)) == Tup([i \in 1..Len(a) |-> f(a[i], b[i])])
VecMap1(a, f(_)) == Tup([i \in 1..Len(a) |-> f(a[i])])
CScale(c, a) == Tup([i \in 1..Len(a) |-> CMul(c, a[i])])
CZeroV(n) == Tup([i \in 1..n |-> CZero])
RECURSIVE CSumV(_)
CSumV(a) == IF a = <<>> THEN CZero ELSE CAdd(a[1], CSumV(Tail(a)))
OrZ(d, n) == IF d = <<>> THEN CZeroV(n) ELSE d

(* ---- module kinds: response and adjoint (bilinear convention: g = Re sum w*y, sensitivity = J^T w for     ---- *)
(* ---- holomorphic maps; conj-weighted for the real-valued map z conj z)                                     ---- *)
Eval(k, X) ==
  CASE k = "lin" -> <<VecMap2(X[1], X[2], LAMBDA a, b : CSub(CScale(CR(2), <<a>>)[1], b))>>
    [] k = "mul" -> <<VecMap2(X[1], X[2], CMul)>>
    [] k = "square" -> <<VecMap2(X[1], X[1], CMul)>>
    [] k = "wrong" -> <<CScale(CR(3), X[1])>>
    [] k = "cscale" -> <<CScale(<<QI(1), QI(2)>>, X[1])>>
    [] k = "absq" -> <<VecMap1(X[1], LAMBDA z : CMul(z, CConj(z)))>>
    [] k = "sum" -> <<(<<CSumV(X[1])>>)>>
    [] k = "split" -> <<CScale(CR(2), X[1]), CScale(CR(3), X[1])>>
    [] k = "diag" -> <<Tup([q \in 1..(Len(X[1]) * Len(X[1])) |->
                          IF (q - 1) \div Len(X[1]) = (q - 1) % Len(X[1]) THEN X[1][((q - 1) % Len(X[1])) + 1] ELSE CZero])>>
OutScal(k) == k = "sum"
VJP(k, X, DY) ==
  CASE k = "lin" -> LET d == OrZ(DY[1], Len(X[1])) IN <<CScale(CR(2), d), CScale(CR(-1), d)>>
    [] k = "mul" -> LET d == OrZ(DY[1], Len(X[1])) IN <<VecMap2(X[2], d, CMul), VecMap2(X[1], d, CMul)>>
    [] k = "square" -> LET d == OrZ(DY[1], Len(X[1])) IN <<CScale(CR(2), VecMap2(X[1], d, CMul))>>
    [] k = "wrong" -> <<CScale(CR(2), OrZ(DY[1], Len(X[1])))>>            \* deliberately wrong: the true adjoint is 3 dy
    [] k = "cscale" -> <<CScale(<<QI(1), QI(2)>>, OrZ(DY[1], Len(X[1])))>>
    [] k = "absq" -> LET d == OrZ(DY[1], Len(X[1])) IN <<CScale(CR(2), VecMap2(VecMap1(X[1], CConj), d, CMul))>>
    [] k = "sum" -> <<Tup([i \in 1..Len(X[1]) |-> OrZ(DY[1], 1)[1]])>>
    [] k = "split" -> <<VecMap2(CScale(CR(2), OrZ(DY[1], Len(X[1]))), CScale(CR(3), OrZ(DY[2], Len(X[1]))), CAdd)>>
    [] k = "diag" -> LET n == Len(X[1])  d == OrZ(DY[1], n * n) IN <<Tup([i \in 1..n |-> d[(i - 1) * n + i]])>>
(* is the coded adjoint the true one ? *)
AdjointRight(k) == k # "wrong"

(* ---- network semantics on a range of modules ---- *)
RECURSIVE RunMods(_, _, _, _)
RunMods(prog, val, lo, hi) ==
  IF lo > hi THEN val
  ELSE LET m == prog[lo]
           Y == Eval(m.k, Tup([j \in 1..Len(m.i) |-> val[m.i[j]].v])) IN
       RunMods(prog, [s \in DOMAIN val |-> IF \E j \in 1..Len(m.o) : m.o[j] = s
                                           THEN [scal |-> OutScal(m.k), v |-> Y[CHOOSE j \in 1..Len(m.o) : m.o[j] = s]] ELSE val[s]],
               lo + 1, hi)
AddS(sn, s, g) == [sn EXCEPT ![s] = IF @ = <<>> THEN g ELSE VecMap2(@, g, CAdd)]
RECURSIVE AddIns(_, _, _, _)
AddIns(sn, ins, G, j) == IF j > Len(ins) THEN sn ELSE AddIns(AddS(sn, ins[j], G[j]), ins, G, j + 1)
RECURSIVE BackMods(_, _, _, _, _)
BackMods(prog, val, sn, hi, lo) ==          \* reverse order, skip rule, accumulation
  IF hi < lo THEN sn
  ELSE LET m == prog[hi]
           DY == Tup([j \in 1..Len(m.o) |-> sn[m.o[j]]]) IN
       IF \A j \in 1..Len(DY) : DY[j] = <<>> THEN BackMods(prog, val, sn, hi - 1, lo)
       ELSE BackMods(prog, val, AddIns(sn, m.i, VJP(m.k, Tup([j \in 1..Len(m.i) |-> val[m.i[j]].v]), DY), 1), hi - 1, lo)

(* sub-network selection *)
Uses(m, sigs) == \E j \in 1..Len(m.i) : \E q \in 1..Len(sigs) : m.i[j] = sigs[q]
Makes(m, sigs) == \E j \in 1..Len(m.o) : \E q \in 1..Len(sigs) : m.o[j] = sigs[q]
IFirst(c) == CHOOSE i \in 1..Len(c.prog) : Uses(c.prog[i], c.from) /\ \A j \in 1..(i - 1) : ~Uses(c.prog[j], c.from)
ILast(c) == CHOOSE i \in 1..Len(c.prog) : Makes(c.prog[i], c.to) /\ \A j \in (i + 1)..Len(c.prog) : ~Makes(c.prog[j], c.to)

VARIABLES cs, val, sens, ana, f0, saved, pin, pent, log, phase
vars == <<cs, val, sens, ana, f0, saved, pin, pent, log, phase>>
Sigs == 1..cs.nsig
NoSens == [s \in Sigs |-> <<>>]

Init == /\ cs \in Cases /\ phase = "start"
        /\ val = [s \in 1..cs.nsig |-> IF s \in DOMAIN cs.init THEN cs.init[s] ELSE Unset]
        /\ sens = [s \in 1..cs.nsig |-> <<>>] /\ ana = <<>> /\ f0 = <<>> /\ saved = <<>> /\ pin = 0 /\ pent = 0 /\ log = <<>>

(* modules before the sub-network run once; reset; response; analytical sensitivities output by output *)
Analytic ==
  /\ phase = "start"
  /\ LET v1 == RunMods(cs.prog, val, 1, IFirst(cs) - 1)
         v2 == RunMods(cs.prog, v1, IFirst(cs), ILast(cs))
         one(o) == LET seeded == [NoSens EXCEPT ![cs.to[o]] = cs.df[o]]
                       back == BackMods(cs.prog, v2, seeded, ILast(cs), IFirst(cs)) IN
                   Tup([q \in 1..Len(cs.from) |-> back[cs.from[q]]])
     IN /\ val' = v2
        /\ f0' = Tup([o \in 1..Len(cs.to) |-> v2[cs.to[o]].v])
        /\ ana' = Tup([o \in 1..Len(cs.to) |-> one(o)])       \* ana[o][q]: sensitivity of input q for output o
        /\ saved' = Tup([q \in 1..Len(cs.from) |-> v2[cs.from[q]]])
  /\ sens' = NoSens                                            \* reset after every output
  /\ pin' = 1 /\ pent' = 1 /\ phase' = "perturb"
  /\ UNCHANGED <<cs, log>>

CAbs1(z) == IF QIsZero(z[2]) THEN (IF QLess(z[1], QZero) THEN QNeg(z[1]) ELSE z[1]) ELSE QOne   \* |x| for real entries (relative dx is used with real data only)
(* one report: analytical and numerical value of d(Re sum df*y)/d(entry), real or imaginary direction *)
Report(o, q, e, pert, imagdir, vp, sf) ==
  LET fp == vp[cs.to[o]].v
      den == IF imagdir THEN <<QZero, QMul(cs.dx, sf)>> ELSE <<QMul(cs.dx, sf), QZero>>
      tot == CSumV(Tup([i \in 1..Len(fp) |-> CMul(CDiv(CSub(fp[i], f0[o][i]), den), cs.df[o][i])]))
      an == IF ana[o][q] = <<>> THEN CZero ELSE ana[o][q][e] IN
  [o |-> o, q |-> q, e |-> e, im |-> imagdir, an |-> IF imagdir THEN an[2] ELSE an[1], fd |-> IF imagdir THEN tot[2] ELSE tot[1]]

Perturb ==
  /\ phase = "perturb"
  /\ LET s == cs.from[pin]
         x == val[s].v
         x0 == x[pent]
         skip == CIsZero(x0) /\ cs.keepzero /\ ~val[s].scal
         sf == IF cs.rel /\ ~CIsZero(x0) THEN CAbs1(x0) ELSE QOne
         xr == [x EXCEPT ![pent] = CAdd(x0, <<QMul(cs.dx, sf), QZero>>)]
         vr == RunMods(cs.prog, [val EXCEPT ![s].v = xr], IFirst(cs), ILast(cs))
         xi == [x EXCEPT ![pent] = CAdd(x0, <<QZero, QMul(cs.dx, sf)>>)]
         vi == RunMods(cs.prog, [val EXCEPT ![s].v = xi], IFirst(cs), ILast(cs))
         cplx == ~QIsZero(x0[2]) \/ cs.cplx[pin]
         reps == Tup([o \in 1..Len(cs.to) |-> Report(o, pin, pent, xr, FALSE, vr, sf)])
                 \o (IF cplx THEN Tup([o \in 1..Len(cs.to) |-> Report(o, pin, pent, xi, TRUE, vi, sf)]) ELSE <<>>)
         last == pent = Len(x)
     IN /\ log' = IF skip THEN log ELSE log \o reps
        \* the outputs keep the values of the last perturbed response; the input is restored
        /\ val' = IF skip THEN val ELSE [s2 \in Sigs |-> IF s2 = s THEN val[s] ELSE (IF cplx THEN vi ELSE vr)[s2]]
        /\ pent' = IF last THEN 1 ELSE pent + 1
        /\ pin' = IF last THEN pin + 1 ELSE pin
        /\ phase' = IF last /\ pin = Len(cs.from) THEN "end" ELSE "perturb"
  /\ UNCHANGED <<cs, sens, ana, f0, saved>>

Next == Analytic \/ Perturb
Spec == Init /\ [][Next]_vars

-----------------------------------------------------------------------------
(* C19 *)
Restored == phase = "end" => \A q \in 1..Len(cs.from) : val[cs.from[q]] = saved[q]
NoSensLeft == phase \in {"perturb", "end"} => \A s \in Sigs : sens[s] = <<>>
Visited ==   \* every (non-zero) entry once per output, twice for complex entries
  phase = "end" =>
    \A q \in 1..Len(cs.from) : \A e \in 1..Len(saved[q].v) : \A o \in 1..Len(cs.to) :
       LET n == Cardinality({i \in 1..Len(log) : log[i].q = q /\ log[i].e = e /\ log[i].o = o})
           x0 == saved[q].v[e] IN
       n = IF CIsZero(x0) /\ cs.keepzero /\ ~saved[q].scal THEN 0
           ELSE IF ~QIsZero(x0[2]) \/ cs.cplx[q] THEN 2 ELSE 1
(* a correct adjoint is reported with a matching pair when the sub-network is affine in the perturbed entry; a wrong one never *)
Affine(c) == \A i \in IFirst(c)..ILast(c) : c.prog[i].k \notin {"square", "absq", "mul"}
Verdict ==
  phase = "end" =>
    /\ (Affine(cs) /\ \A i \in IFirst(cs)..ILast(cs) : AdjointRight(cs.prog[i].k)) => \A i \in 1..Len(log) : log[i].an = log[i].fd
    /\ (Affine(cs) /\ \E i \in IFirst(cs)..ILast(cs) : ~AdjointRight(cs.prog[i].k)) => \E i \in 1..Len(log) : log[i].an # log[i].fd

Emit == phase = "end" =>
  PrintT(<<"FD", ToJson([id |-> cs.id, log |-> log, final |-> Tup([q \in 1..Len(cs.from) |-> val[cs.from[q]].v])])>>)
=============================================================================
