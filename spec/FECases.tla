------------------------------ MODULE FECases ------------------------------
(***************************************************************************)
(* Case enumeration for FE.tla: assembly cases (grid, dofs per node,        *)
(* constrained dof set) and element cases (dimension, element sizes,        *)
(* material, plane mode).  The invariants are C08 / C12 on each case; the   *)
(* emitted tables are replayed on pymoto's assembly and element modules.    *)
(***************************************************************************)
EXTENDS FE

CONSTANTS AsmCases,    \* set of records [g, ndof, Ke, bcs] ; bcs: set of constrained-dof sets
          ElemCases,   \* set of records [dim, sz, mode, E, nu]
          GradSets     \* [2 |-> set of 2x2 gradients, 3 |-> set of 3x3 gradients] as a sequence indexed by dim
VARIABLES kind, cs, bc, phase
vars == <<kind, cs, bc, phase>>

(* the case is chosen in Init (one initial state per case, so that TLC's workers share the cases); the heavy  *)
(* evaluation happens in the successor state                                                                *)
Init == /\ phase = "pick" /\ bc = {}
        /\ \/ kind = "asm" /\ cs \in AsmCases
           \/ kind = "elem" /\ cs \in ElemCases
PickAsm == /\ phase = "pick" /\ kind = "asm" /\ phase' = "eval"
           /\ bc' \in cs.bcs /\ UNCHANGED <<kind, cs>>
PickElem == /\ phase = "pick" /\ kind = "elem" /\ phase' = "eval" /\ UNCHANGED <<kind, cs, bc>>
Done == phase = "eval" /\ phase' = "done" /\ UNCHANGED <<kind, cs, bc>>
Next == PickAsm \/ PickElem \/ Done
Spec == Init /\ [][Next]_vars

DV == 3
UnitX(g, e) == Tup([i \in 1..Nel(g) |-> IF i = e + 1 THEN 1 ELSE 0])
ZeroX(g) == Tup([i \in 1..Nel(g) |-> 0])
RampX(g) == Tup([i \in 1..Nel(g) |-> i])

C08asm ==
  (phase = "eval" /\ kind = "asm") =>
     /\ AssembleOp(cs.g, cs.ndof, cs.Ke, ZeroX(cs.g), bc, DV) = AssembleDecl(cs.g, cs.ndof, cs.Ke, ZeroX(cs.g), bc, DV)
     /\ AssembleOp(cs.g, cs.ndof, cs.Ke, RampX(cs.g), bc, DV) = AssembleDecl(cs.g, cs.ndof, cs.Ke, RampX(cs.g), bc, DV)
     /\ \A e \in 0..Nel(cs.g) - 1 :
          AssembleOp(cs.g, cs.ndof, cs.Ke, UnitX(cs.g, e), bc, DV) = AssembleDecl(cs.g, cs.ndof, cs.Ke, UnitX(cs.g, e), bc, DV)

Thick(c) == IF c.dim = 2 THEN c.sz[3] ELSE QOne
ElemOK ==
  (phase = "eval" /\ kind = "elem") =>
     /\ ElementPhysics(cs.dim, cs.sz, cs.mode, cs.E, cs.nu, Thick(cs), GradSets[cs.dim])
     /\ \A nd \in {1, cs.dim} : MassPoissonPhysics(cs.dim, cs.sz, QI(3), Q(3, 2), nd)

OpTranspose ==
  (phase = "eval" /\ kind = "asm") =>
     LET Bm == Tup([r \in 1..2 |-> cs.Ke[r]]) IN IsTransposeI(ElemOpMat(cs.g, cs.ndof, Bm), NodalOpMat(cs.g, cs.ndof, Bm))

EmitAsm == (phase = "done" /\ kind = "asm") =>
   PrintT(<<"ASM", ToJson([g |-> cs.g, ndof |-> cs.ndof, Ke |-> cs.Ke, bc |-> bc, dv |-> DV,
                           A0 |-> AssembleOp(cs.g, cs.ndof, cs.Ke, ZeroX(cs.g), bc, DV),
                           eop |-> ElemOpMat(cs.g, cs.ndof, Tup([r \in 1..2 |-> cs.Ke[r]])),
                           cols |-> Tup([e \in 1..Nel(cs.g) |-> AssembleOp(cs.g, cs.ndof, cs.Ke, UnitX(cs.g, e - 1), bc, DV)])])>>)
EmitElem == (phase = "done" /\ kind = "elem") =>
   LET D == DMat(IF cs.dim = 3 THEN "3d" ELSE cs.mode, cs.E, cs.nu) IN
   PrintT(<<"ELEM", ToJson([dim |-> cs.dim, sz |-> cs.sz, mode |-> cs.mode, E |-> cs.E, nu |-> cs.nu,
                            D |-> D, K |-> KElem(cs.dim, cs.sz, D, Thick(cs)),
                            M1 |-> MElem(cs.dim, cs.sz, QI(3), 1), Md |-> MElem(cs.dim, cs.sz, QI(3), cs.dim),
                            P |-> PElem(cs.dim, cs.sz, Q(3, 2)), B |-> BCentroid(cs.dim, cs.sz),
                            fth |-> ThermalLoad(cs.dim, cs.sz, D, Thick(cs), Q(1, 2)),
                            aff |-> {<<Gm, ExactStrain(cs.dim, Gm), QMatVec(D, ExactStrain(cs.dim, Gm)),
                                       QMul(Vol(cs.dim, cs.sz), QDotV(QMatVec(D, ExactStrain(cs.dim, Gm)), ExactStrain(cs.dim, Gm)))>> :
                                        Gm \in GradSets[cs.dim]}])>>)
=============================================================================
