----------------------------- MODULE ModuleInit -----------------------------
(***************************************************************************)
(* Construction contract of Module and Network (pymoto/core_objects.py):   *)
(* signature checking of _response / _sensitivity against the numbers of    *)
(* input and output signals, automatic creation of output signals, and the  *)
(* input / output signal sets of a Network.                                 *)
(* A signature is [pos, varpos, dflt, kwonly, varkw]: number of positional  *)
(* parameters (self excluded), *args present, a positional default present, *)
(* keyword-only parameter present, **kwargs present.                        *)
(***************************************************************************)
EXTENDS Integers, Sequences, FiniteSets, TLC, Json

(* operational: _check_function_signature scans the parameters in order *)
Check(sg, n) ==
  IF sg.dflt \/ sg.kwonly \/ sg.varkw THEN "SyntaxError"
  ELSE IF n < sg.pos THEN "TypeError"
  ELSE IF ~sg.varpos /\ n > sg.pos THEN "TypeError"
  ELSE "ok"
(* declarative: a function accepts n signals iff it can be called with n positional arguments, and only plain positional / *args
   parameters are allowed *)
Accepts(sg, n) == n >= sg.pos /\ (sg.varpos \/ n <= sg.pos)
Plain(sg) == ~sg.dflt /\ ~sg.kwonly /\ ~sg.varkw

(* Module.__init__: response signature against the inputs; outputs created from the sensitivity signature when none are given *)
InitOutcome(rs, ss, nin, nout) ==
  IF Check(rs, nin) # "ok" THEN [res |-> Check(rs, nin), nout |-> 0]
  ELSE LET req == IF ss.varpos THEN -1 ELSE ss.pos
           created == IF nout = 0 /\ req >= 0 /\ req # nout THEN req ELSE nout IN
       IF Check(ss, created) # "ok" THEN [res |-> Check(ss, created), nout |-> 0]
       ELSE [res |-> "ok", nout |-> created]

Sigs == [pos : 0..2, varpos : BOOLEAN, dflt : BOOLEAN, kwonly : BOOLEAN, varkw : BOOLEAN]
(* a default needs a positional parameter to sit on *)
Wellformed(sg) == sg.dflt => sg.pos >= 1

VARIABLES rs, ss, nin, nout, done
vars == <<rs, ss, nin, nout, done>>
Init == rs \in {s \in Sigs : Wellformed(s)} /\ ss \in {s \in Sigs : Wellformed(s)} /\ nin \in 0..3 /\ nout \in 0..3 /\ done = FALSE
Next == ~done /\ done' = TRUE /\ UNCHANGED <<rs, ss, nin, nout>>
Spec == Init /\ [][Next]_vars

CheckSound == \A n \in 0..3 : (Check(rs, n) = "ok") <=> (Plain(rs) /\ Accepts(rs, n))
InitSound ==
  LET o == InitOutcome(rs, ss, nin, nout) IN
  /\ o.res = "ok" => (Accepts(rs, nin) /\ Accepts(ss, o.nout) /\ Plain(rs) /\ Plain(ss))
  /\ (o.res = "ok" /\ nout > 0) => o.nout = nout                    \* given outputs are kept
  /\ (o.res = "ok" /\ nout = 0 /\ ~ss.varpos) => o.nout = ss.pos      \* otherwise one output per sensitivity argument
Emit == done => PrintT(<<"INIT", ToJson([rs |-> rs, ss |-> ss, nin |-> nin, nout |-> nout, out |-> InitOutcome(rs, ss, nin, nout)])>>)

(* ---- Network.append: inputs are the signals consumed but not produced inside, outputs everything produced ---- *)
NetIn(mods) == (UNION {{m.i[j] : j \in 1..Len(m.i)} : m \in {mods[k] : k \in 1..Len(mods)}}) \
               (UNION {{m.o[j] : j \in 1..Len(m.o)} : m \in {mods[k] : k \in 1..Len(mods)}})
NetOut(mods) == UNION {{m.o[j] : j \in 1..Len(m.o)} : m \in {mods[k] : k \in 1..Len(mods)}}
=============================================================================
