---------------------------- MODULE ModuleProto ----------------------------
(***************************************************************************)
(* One (non-network) module under the history alphabet                      *)
(*   Response, SetSeed(a,b), Sens, Reset.                                   *)
(* The output seed is abstractly a*w1 + b*w2 for two fixed basis seeds;     *)
(* the sensitivity accumulated on the inputs is abstractly alpha*g1 +       *)
(* beta*g2 where g_i is the module's adjoint applied to w_i.  The           *)
(* operational part mirrors Module.response/sensitivity/reset of            *)
(* core_objects.py:505-566 and is parameterised by the *purity* of the      *)
(* module's _sensitivity; the declarative part states C04.                  *)
(***************************************************************************)
EXTENDS Integers, Sequences, TLC, Json

CONSTANTS Coefs,    \* set of <<a, b>> pairs the caller may seed with
          Depth,
          Record,
          Purity    \* "pure" | "mask_idempotent" | "accumulate_into_seed" | "scale_state" | "overwrite"

VARIABLES resp,     \* response() has been called (outputs have states)
          held,     \* <<>> (None) or <<a, b>>: what the output sensitivity objects currently hold
          given,    \* <<>> or <<a, b>>: what the caller last assigned (ghost)
          acc,      \* <<>> (None) or <<alpha, beta>>: accumulated input sensitivity
          ledger,   \* ghost: sum of `given` over the Sens steps since the last Reset
          stIn, stOut,   \* version tokens of the input / output states
          masked,   \* the seed object was modified idempotently (boundary-condition masking)
          last, hist
vars == <<resp, held, given, acc, ledger, stIn, stOut, masked, last, hist>>

None == <<>>
PlusC(x, y) == IF x = None THEN y ELSE <<x[1] + y[1], x[2] + y[2]>>

Step(op, args) ==
  /\ last' = [op |-> op, args |-> args]
  /\ hist' = IF Record THEN Append(hist, [op |-> op, args |-> args, acc |-> acc', held |-> held', resp |-> resp'])
             ELSE hist

Init ==
  /\ resp = FALSE /\ held = None /\ given = None /\ acc = None /\ ledger = None
  /\ stIn = 0 /\ stOut = 0 /\ masked = FALSE
  /\ last = [op |-> "Init", args |-> <<>>] /\ hist = <<>>

(* Module.response: outputs are recomputed from the inputs; nothing else changes *)
Response ==
  /\ resp' = TRUE
  /\ stOut' = 1
  /\ UNCHANGED <<held, given, acc, ledger, stIn, masked>>
  /\ Step("Response", <<>>)

(* the caller assigns a*w1 + b*w2 to the output sensitivities; <<0,0>> stands for explicit zero   *)
(* arrays; c = <<>> assigns None                                                                   *)
SetSeed(c) ==
  /\ resp
  /\ held' = c /\ given' = c /\ masked' = FALSE
  /\ UNCHANGED <<resp, acc, ledger, stIn, stOut>>
  /\ Step("SetSeed", c)

(* Module.sensitivity: skip when every output sensitivity is None, else add the adjoint of what   *)
(* the output sensitivities hold to the inputs                                                     *)
Sens ==
  /\ resp
  /\ IF held = None THEN UNCHANGED <<acc, ledger, held, masked, stIn>>
     ELSE /\ acc' = IF Purity = "overwrite" THEN held ELSE PlusC(acc, held)
          /\ ledger' = PlusC(ledger, given)
          /\ held' = IF Purity = "accumulate_into_seed" THEN <<2 * held[1], 2 * held[2]>> ELSE held
          /\ masked' = (masked \/ Purity = "mask_idempotent")
          /\ stIn' = IF Purity = "scale_state" THEN stIn + 1 ELSE stIn
  /\ UNCHANGED <<resp, given, stOut>>
  /\ Step("Sens", <<>>)

(* Module.reset: all sensitivities of outputs and inputs are cleared *)
Reset ==
  /\ held' = None /\ given' = None /\ acc' = None /\ ledger' = None /\ masked' = FALSE
  /\ UNCHANGED <<resp, stIn, stOut>>
  /\ Step("Reset", <<>>)

Finish ==
  /\ Record /\ Len(hist) = Depth /\ last.op # "Finish"
  /\ last' = [op |-> "Finish", args |-> <<>>]
  /\ UNCHANGED <<resp, held, given, acc, ledger, stIn, stOut, masked, hist>>

Next ==
  \/ Finish
  \/ /\ (Len(hist) < Depth \/ ~Record)
     /\ (Response \/ Sens \/ Reset \/ \E c \in Coefs \cup {None} : SetSeed(c))

Spec == Init /\ [][Next]_vars

(* loop-shaped histories, as an optimiser or a finite-difference check produces them: one response, then cycles of      *)
(* (seed, sensitivity[, sensitivity], [reset]) with a different seed each time; reaches three cycles at a depth where  *)
(* the unrestricted Next is far too wide                                                                               *)
NextS ==
  \/ Finish
  \/ /\ Len(hist) < Depth
     /\ CASE last.op = "Init" -> Response
          [] last.op \in {"Response", "Reset"} -> \E c \in Coefs : SetSeed(c)
          [] last.op = "SetSeed" -> Sens
          [] last.op = "Sens" -> Reset \/ Sens \/ Response \/ (\E c \in Coefs \cup {None} : SetSeed(c))
          [] OTHER -> FALSE
SpecS == Init /\ [][NextS]_vars
DepthBound == TLCGet("level") <= Depth + 1

-----------------------------------------------------------------------------
(* C04 *)
Linear == acc = ledger                    \* linear in the seed and accumulative (n calls add n times)
SeedKept == held = given                  \* what the caller assigned is still what the outputs hold
StatesUntouched == [][last'.op \in {"Sens", "Reset", "SetSeed"} => stIn' = stIn /\ stOut' = stOut]_vars
ResponsePure == [][last'.op = "Response" => stIn' = stIn /\ acc' = acc /\ held' = held]_vars

Emit == (Record /\ last.op = "Finish") => PrintT(<<"BEH", ToJson([steps |-> hist])>>)
=============================================================================
