-------------------------------- MODULE Grid --------------------------------
(***************************************************************************)
(* Case enumeration for C13 over the operators of GridOps.tla: one state   *)
(* per (grid, element-size triple); see GridOps.tla for the operational    *)
(* index formulas and the declarative statement of C13.                    *)
(***************************************************************************)
EXTENDS GridOps

-----------------------------------------------------------------------------
(* ---- case enumeration: one state per grid ---- *)
CONSTANTS MaxN2, MaxN3, Sizes      \* bounds for 2D / 3D grids; Sizes: set of <<sx, sy, sz>> of rationals
VARIABLES grid, size, done
vars == <<grid, size, done>>
Grids == {[nx |-> a, ny |-> b, nz |-> 0] : a \in 1..MaxN2, b \in 1..MaxN2}
   \cup {[nx |-> a, ny |-> b, nz |-> c] : a \in 1..MaxN3, b \in 1..MaxN3, c \in 1..MaxN3}
Init == grid \in Grids /\ size \in Sizes /\ done = FALSE
Next == ~done /\ done' = TRUE /\ UNCHANGED <<grid, size>>
Spec == Init /\ [][Next]_vars

C13 == /\ ElemBijection(grid) /\ NodeBijection(grid) /\ ConnCorners(grid)
       /\ \A ndof \in 1..3 : DofExpansion(grid, ndof)
       /\ ShapeProps(grid) /\ Kronecker(grid) /\ DerIsGradient(grid, size)

Table ==
  [grid |-> grid, size |-> size,
   nel |-> Nel(grid), nnodes |-> NNodes(grid), dim |-> Dim(grid),
   elems |-> {<<e, ElemNo(grid, e[1], e[2], e[3]), Conn(grid, e[1], e[2], e[3]),
                Tup([nd \in 1..3 |-> DofConn(grid, e[1], e[2], e[3], nd)])>> : e \in ElemIdx(grid)},
   nodes |-> {<<n, NodeNo(grid, n[1], n[2], n[3]), Tup([d \in 1..3 |-> QMul(size[d], QI(n[d]))])>> : n \in NodeIdxSet(grid)},
   shape |-> {<<t, Tup([a \in 1..ElemNodes(grid) |-> ShapeFn(grid, a, t)]),
                Tup([i \in 1..Dim(grid) |-> Tup([a \in 1..ElemNodes(grid) |-> ShapeDer(grid, a, t, i, size)])])>> : t \in Lattice(grid)}]
Emit == done => PrintT(<<"CASE", ToJson(Table)>>)
=============================================================================
