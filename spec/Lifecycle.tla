----------------------------- MODULE Lifecycle -----------------------------
(***************************************************************************)
(* Call histories on a network with caching components, as a version /     *)
(* taint model.  Every SetInput selects a design (version); every computed *)
(* state, every cache and every sensitivity contribution carries the       *)
(* versions it was computed from.  The operational part mirrors what the   *)
(* code keeps between calls:                                               *)
(*   LinSolve      factorisation + LDAS databases (rebuilt by update() in  *)
(*                 every response), stored solution used as initial guess  *)
(*                 (may be stale by design, must not influence results)    *)
(*   EigenSolve    shift-invert factorisation, per-mode adjoint solvers    *)
(*                 (flagged for update by every response)                  *)
(*   OverhangFilter stored layer maxima (overwritten by every response)    *)
(* The declarative part states C03: after a reset, the latest              *)
(* response/seed/sensitivity cycle depends on the current input and seeds  *)
(* only (Clean => all tags current); reset leaves nothing; sensitivity     *)
(* without seed changes nothing.                                           *)
(***************************************************************************)
EXTENDS Integers, Sequences, FiniteSets, TLC, Json
CONSTANTS NDesigns, NOut, Depth, Record, Variant

VARIABLES inp,      \* current design (0 = template's initial design)
          outFor,   \* design the output states were computed from, -1 = never
          factFor,  \* design the factorisations / databases / layer maxima belong to
          adjFor,   \* design the adjoint-side caches (adjoint database, per-mode solvers) belong to
          guessFor, \* design of the stored solution used as initial guess (-1 none)
          seeded,   \* set of outputs whose sensitivity the caller has assigned
          ledger,   \* sequence of contributions [inp, seeds, fact, adj] added to the sources since the last reset
          last, hist
vars == <<inp, outFor, factFor, adjFor, guessFor, seeded, ledger, last, hist>>

Step(op, args) ==
  /\ last' = [op |-> op, args |-> args]
  /\ hist' = IF Record
             THEN Append(hist, [op |-> op, args |-> args,
                                statesValid |-> (outFor' = inp'),
                                clean |-> (Len(ledger') = 1 /\ outFor' = inp' /\ ledger'[1].inp = inp' /\ ledger'[1].seeds = seeded'),
                                nosens |-> (ledger' = <<>> /\ seeded' = {}),
                                seeds |-> seeded', inp |-> inp'])
             ELSE hist

Init ==
  /\ inp = 0 /\ outFor = -1 /\ factFor = -1 /\ adjFor = -1 /\ guessFor = -1
  /\ seeded = {} /\ ledger = <<>>
  /\ last = [op |-> "Init", args |-> <<>>] /\ hist = <<>>

SetInput(k) ==
  /\ k # inp
  /\ inp' = k
  /\ UNCHANGED <<outFor, factFor, adjFor, guessFor, seeded, ledger>>
  /\ Step("SetInput", <<k>>)

Response ==
  /\ outFor' = inp
  /\ factFor' = IF Variant = "stale_factorisation" /\ factFor # -1 THEN factFor ELSE inp
  /\ adjFor' = IF Variant = "stale_adjoint_cache" /\ adjFor # -1 THEN adjFor ELSE -1   \* invalidated, rebuilt lazily
  /\ guessFor' = outFor
  /\ UNCHANGED <<inp, seeded, ledger>>
  /\ Step("Response", <<>>)

Seed(j) ==
  /\ outFor = inp                       \* protocol: outputs exist for the current input
  /\ j \notin seeded
  /\ seeded' = seeded \cup {j}
  /\ UNCHANGED <<inp, outFor, factFor, adjFor, guessFor, ledger>>
  /\ Step("Seed", <<j>>)

Sens ==
  /\ outFor = inp                       \* protocol: response before sensitivity for the current input
  /\ IF seeded = {} THEN UNCHANGED <<ledger, adjFor>>
     ELSE /\ adjFor' = IF adjFor = -1 THEN inp ELSE adjFor
          /\ ledger' = Append(ledger, [inp |-> inp, seeds |-> seeded, fact |-> factFor, adj |-> adjFor'])
  /\ UNCHANGED <<inp, outFor, factFor, guessFor, seeded>>
  /\ Step("Sens", <<>>)

Reset ==
  /\ seeded' = {} /\ ledger' = IF Variant = "reset_keeps" THEN ledger ELSE <<>>
  /\ UNCHANGED <<inp, outFor, factFor, adjFor, guessFor>>
  /\ Step("Reset", <<>>)

Finish ==
  /\ Record /\ Len(hist) = Depth /\ last.op # "Finish"
  /\ last' = [op |-> "Finish", args |-> <<>>]
  /\ UNCHANGED <<inp, outFor, factFor, adjFor, guessFor, seeded, ledger, hist>>

Act ==
  /\ (Len(hist) < Depth \/ ~Record)
  /\ \/ \E k \in 0..NDesigns - 1 : SetInput(k)
     \/ Response \/ Sens \/ Reset
     \/ \E j \in 1..NOut : Seed(j)

(* structured histories: optimisation-loop shaped cycles (input update, response, seeds, sensitivity, *)
(* reset) with a little noise; used to emit long behaviours that contain several clean cycles      *)
AllowedPairs == {<<"Init", "SetInput">>, <<"Init", "Response">>, <<"SetInput", "Response">>,
                 <<"Response", "Seed">>, <<"Seed", "Seed">>, <<"Seed", "Sens">>,
                 <<"Sens", "Reset">>, <<"Sens", "Sens">>, <<"Sens", "SetInput">>,
                 <<"Reset", "SetInput">>, <<"Reset", "Response">>, <<"Reset", "Seed">>}
ActS == Act /\ <<last.op, last'.op>> \in AllowedPairs
NextS == Finish \/ ActS
SpecS == Init /\ [][NextS]_vars

Next == Finish \/ Act
Spec == Init /\ [][Next]_vars
DepthBound == TLCGet("level") <= Depth + 1

-----------------------------------------------------------------------------
Clean == Len(ledger) = 1 /\ outFor = inp /\ ledger[1].inp = inp /\ ledger[1].seeds = seeded
(* C03: the latest cycle after a reset used nothing computed for another input *)
NoStale == Clean => (factFor = inp /\ ledger[1].fact = inp /\ ledger[1].adj = inp)
StatesCurrent == outFor = inp => factFor = inp
ResetClean == [][last'.op = "Reset" => ledger' = <<>> /\ seeded' = {}]_vars
NoSeedNoChange == [][(last'.op = "Sens" /\ seeded = {}) => ledger' = ledger]_vars

Emit == (Record /\ last.op = "Finish") => PrintT(<<"BEH", ToJson([steps |-> hist])>>)
=============================================================================
