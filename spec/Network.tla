------------------------------ MODULE Network ------------------------------
(***************************************************************************)
(* Module / Network of pymoto/core_objects.py: response in list order,     *)
(* sensitivity in reverse list order with the skip rule and                *)
(* add_sensitivity accumulation, reset in reverse order.                   *)
(*                                                                         *)
(* A *program* (module graph) is built nondeterministically in the build   *)
(* phase, so TLC enumerates every acyclic wiring within the bounds.  Then  *)
(* the operational semantics runs it; the declarative part defines the     *)
(* total derivative independently by forward-mode tangents and TLC checks  *)
(* that backpropagation produces exactly that on every source signal.      *)
(***************************************************************************)
EXTENDS Integers, Sequences, FiniteSets, TLC, Json

CONSTANTS MaxMods,    \* number of modules in a program
          Kinds,      \* enabled module kinds \subseteq {"Sc","Lin","Mul","Split","Cat","Dot"}
          SliceKinds, \* enabled input slicings \subseteq {"none","head","fancy"}
          FirstKinds, \* kinds allowed for the first module (partitions the program space over parallel runs)
          AllowNest,  \* TRUE: sub-networks may be opened/closed while building
          Record,     \* TRUE: keep the history for emission
          Variant     \* "faithful" or a negative variant

VARIABLES prog,    \* sequence of module records and nesting markers
          slen,    \* length of every signal created so far
          val,     \* [signal -> vector | <<>>]
          sens,    \* [signal -> vector | <<>> (None)]
          pc,      \* [ph |-> "build"|"fwd"|"seed"|"bwd"|"done"|"reset"|"end", i |-> index into Mods]
          seeded,  \* set of seeded signals
          open,    \* number of currently open sub-networks (build phase)
          hist
vars == <<prog, slen, val, sens, pc, seeded, open, hist>>

NSrc == 2
SrcVal == <<(<<1, 2>>), (<<3, -1>>)>>
MaxSig == NSrc + 2 * MaxMods
Sig == 1..MaxSig
Tup(f) == SubSeq(f, 1, Len(f))

IsMod(m) == m.kind \notin {"(", ")"}
Mods(p) == SelectSeq(p, IsMod)
NMods == Len(Mods(prog))
NSig == Len(slen)

NIn(k) == IF k \in {"Sc", "Split"} THEN 1 ELSE 2
NOut(k) == IF k = "Split" THEN 2 ELSE 1

(* input reference: signal + positions; pos = <<>> means the signal itself (no SignalSlice) *)
SliceOpts(n) == (IF "none" \in SliceKinds THEN {<<>>} ELSE {})
          \cup (IF n >= 2 /\ "head" \in SliceKinds THEN {Tup([i \in 1..n-1 |-> i])} ELSE {})
          \cup (IF n >= 2 /\ "fancy" \in SliceKinds THEN {<<n, 1>>} ELSE {})
InLen(in) == IF in.pos = <<>> THEN slen[in.sig] ELSE Len(in.pos)
Take(v, in) == IF in.pos = <<>> THEN v ELSE Tup([i \in 1..Len(in.pos) |-> v[in.pos[i]]])

(* ----- module semantics: response, tangent (JVP), adjoint (VJP) ----- *)
Zero(n) == Tup([i \in 1..n |-> 0])
Scale(c, a) == Tup([i \in 1..Len(a) |-> c * a[i]])
Plus(a, b) == Tup([i \in 1..Len(a) |-> a[i] + b[i]])
Had(a, b) == Tup([i \in 1..Len(a) |-> a[i] * b[i]])
RECURSIVE SumSeq(_)
SumSeq(a) == IF a = <<>> THEN 0 ELSE a[1] + SumSeq(Tail(a))
Dot(a, b) == SumSeq(Had(a, b))
OrZero(d, n) == IF d = <<>> THEN Zero(n) ELSE d

Eval(m, X) ==
  CASE m.kind = "Sc" -> <<Scale(3, X[1])>>
    [] m.kind = "Lin" -> <<Plus(Scale(2, X[1]), Scale(-1, X[2]))>>
    [] m.kind = "Add" -> <<Plus(X[1], X[2])>>
    [] m.kind = "Mul" -> <<Had(X[1], X[2])>>
    [] m.kind = "Split" -> <<Scale(2, X[1]), Scale(3, X[1])>>
    [] m.kind = "Cat" -> <<X[1] \o X[2]>>
    [] m.kind = "Dot" -> <<(<<Dot(X[1], X[2])>>)>>

OutLens(k, L) ==
  CASE k \in {"Sc", "Lin", "Mul", "Add"} -> <<L[1]>>
    [] k = "Split" -> <<L[1], L[1]>>
    [] k = "Cat" -> <<L[1] + L[2]>>
    [] k = "Dot" -> <<1>>

(* tangent of the outputs for tangents TX of the inputs, at inputs X *)
JVP(m, X, TX) ==
  CASE m.kind = "Sc" -> <<Scale(3, TX[1])>>
    [] m.kind = "Lin" -> <<Plus(Scale(2, TX[1]), Scale(-1, TX[2]))>>
    [] m.kind = "Add" -> <<Plus(TX[1], TX[2])>>
    [] m.kind = "Mul" -> <<Plus(Had(TX[1], X[2]), Had(X[1], TX[2]))>>
    [] m.kind = "Split" -> <<Scale(2, TX[1]), Scale(3, TX[1])>>
    [] m.kind = "Cat" -> <<TX[1] \o TX[2]>>
    [] m.kind = "Dot" -> <<(<<Dot(TX[1], X[2]) + Dot(X[1], TX[2])>>)>>

(* adjoint: cotangents of the inputs for output seeds DY (<<>> = None counts as zero) *)
VJP(m, X, DY) ==
  LET d1 == OrZero(DY[1], IF m.kind = "Cat" THEN Len(X[1]) + Len(X[2]) ELSE IF m.kind = "Dot" THEN 1 ELSE Len(X[1])) IN
  CASE m.kind = "Sc" -> <<Scale(3, d1)>>
    [] m.kind = "Lin" -> <<Scale(2, d1), Scale(-1, d1)>>
    [] m.kind = "Add" -> <<d1, d1>>           \* the same seed goes to both inputs
    [] m.kind = "Mul" -> <<Had(X[2], d1), Had(X[1], d1)>>
    [] m.kind = "Split" -> <<Plus(Scale(2, d1), Scale(3, OrZero(DY[2], Len(X[1]))))>>
    [] m.kind = "Cat" -> <<SubSeq(d1, 1, Len(X[1])), SubSeq(d1, Len(X[1]) + 1, Len(d1))>>
    [] m.kind = "Dot" -> <<Scale(d1[1], X[2]), Scale(d1[1], X[1])>>

Inputs(m, v) == Tup([j \in 1..Len(m.ins) |-> Take(v[m.ins[j].sig], m.ins[j])])

(* Signal.add_sensitivity / SignalSlice.add_sensitivity of contribution g to input reference in *)
AddAt(sn, in, g) ==
  IF in.pos = <<>>
    THEN [sn EXCEPT ![in.sig] = IF @ = <<>> THEN g ELSE Plus(@, g)]
    ELSE LET base == IF sn[in.sig] = <<>> THEN Zero(slen[in.sig]) ELSE sn[in.sig] IN
         [sn EXCEPT ![in.sig] = Tup([p \in 1..Len(base) |->
               IF \E i \in 1..Len(in.pos) : in.pos[i] = p
               THEN base[p] + g[CHOOSE i \in 1..Len(in.pos) : in.pos[i] = p] ELSE base[p]])]

RECURSIVE AddAll(_, _, _, _)
AddAll(sn, ins, G, j) == IF j > Len(ins) THEN sn ELSE AddAll(AddAt(sn, ins[j], G[j]), ins, G, j + 1)

(* Signal.reset / SignalSlice.reset *)
ResetRef(sn, in) ==
  IF in.pos = <<>> \/ sn[in.sig] = <<>> THEN [sn EXCEPT ![in.sig] = <<>>]
  ELSE [sn EXCEPT ![in.sig] = Tup([p \in 1..Len(@) |-> IF \E i \in 1..Len(in.pos) : in.pos[i] = p THEN 0 ELSE @[p]])]
RECURSIVE ResetRefs(_, _, _)
ResetRefs(sn, ins, j) == IF j > Len(ins) THEN sn ELSE ResetRefs(ResetRef(sn, ins[j]), ins, j + 1)

SeedW(o) == Tup([i \in 1..slen[o] |-> 1 + ((o + i) % 3)])

Log(op, k, c) ==
  hist' = IF Record THEN Append(hist, [op |-> op, k |-> k, called |-> c, val |-> val', sens |-> sens']) ELSE hist

-----------------------------------------------------------------------------
Init ==
  /\ prog = <<>>
  /\ slen = <<2, 2>>
  /\ val = [s \in Sig |-> IF s <= NSrc THEN SrcVal[s] ELSE <<>>]
  /\ sens = [s \in Sig |-> <<>>]
  /\ pc = [ph |-> "build", i |-> 0]
  /\ seeded = {}
  /\ open = 0
  /\ hist = <<>>

InRefs == {[sig |-> s, pos |-> p] : s \in 1..NSig, p \in UNION {SliceOpts(n) : n \in 1..8}}
ValidRef(in) == in.pos \in SliceOpts(slen[in.sig])

AddModule(kind, ins) ==
  /\ pc.ph = "build" /\ NMods < MaxMods
  /\ kind \in Kinds /\ Len(ins) = NIn(kind)
  /\ NMods = 0 => kind \in FirstKinds
  /\ \A j \in 1..Len(ins) : ValidRef(ins[j])
  /\ kind \in {"Lin", "Mul", "Dot", "Add"} => InLen(ins[1]) = InLen(ins[2])
  /\ LET L == [j \in 1..Len(ins) |-> InLen(ins[j])]
         ol == OutLens(kind, L)
         outs == [j \in 1..NOut(kind) |-> NSig + j] IN
     /\ \A j \in 1..Len(ol) : ol[j] <= 6
     /\ prog' = Append(prog, [kind |-> kind, ins |-> ins, outs |-> Tup(outs)])
     /\ slen' = slen \o ol
  /\ UNCHANGED <<val, sens, pc, seeded, open, hist>>

LastKind == IF prog = <<>> THEN "" ELSE prog[Len(prog)].kind
Open ==
  /\ pc.ph = "build" /\ AllowNest /\ open < 2 /\ NMods < MaxMods
  /\ (LastKind # "(" \/ open = 0)
  /\ prog' = Append(prog, [kind |-> "(", ins |-> <<>>, outs |-> <<>>])
  /\ open' = open + 1
  /\ UNCHANGED <<slen, val, sens, pc, seeded, hist>>

Close ==
  /\ pc.ph = "build" /\ open > 0 /\ LastKind # "("     \* no empty sub-network
  /\ prog' = Append(prog, [kind |-> ")", ins |-> <<>>, outs |-> <<>>])
  /\ open' = open - 1
  /\ UNCHANGED <<slen, val, sens, pc, seeded, hist>>

StartRun ==
  /\ pc.ph = "build" /\ NMods = MaxMods /\ open = 0
  /\ pc' = [ph |-> "fwd", i |-> 1]
  /\ UNCHANGED <<prog, slen, val, sens, seeded, open, hist>>

(* Network.response: modules in list order *)
Fwd ==
  /\ pc.ph = "fwd"
  /\ LET m == Mods(prog)[pc.i]
         Y == Eval(m, Inputs(m, val)) IN
     /\ val' = [s \in Sig |-> IF \E j \in 1..Len(m.outs) : m.outs[j] = s
                               THEN Y[CHOOSE j \in 1..Len(m.outs) : m.outs[j] = s] ELSE val[s]]
     /\ pc' = IF pc.i = NMods THEN [ph |-> "seed", i |-> 0] ELSE [ph |-> "fwd", i |-> pc.i + 1]
     /\ UNCHANGED <<prog, slen, sens, seeded, open>>
     /\ Log("Fwd", pc.i, TRUE)

(* the caller seeds any non-empty set of produced signals *)
Seed ==
  /\ pc.ph = "seed"
  /\ \E S \in (SUBSET ((NSrc + 1)..NSig)) \ {{}} :
       /\ seeded' = S
       /\ sens' = [s \in Sig |-> IF s \in S THEN SeedW(s) ELSE <<>>]
  /\ pc' = [ph |-> "bwd", i |-> NMods]
  /\ UNCHANGED <<prog, slen, val, open>>
  /\ Log("Seed", 0, TRUE)

(* Network.sensitivity: modules in reverse order; Module.sensitivity with the skip rule *)
Bwd ==
  /\ pc.ph = "bwd"
  /\ LET m == Mods(prog)[pc.i]
         DY == Tup([j \in 1..Len(m.outs) |-> sens[m.outs[j]]])
         skip == (\A j \in 1..Len(DY) : DY[j] = <<>>) /\ Variant # "no_skip"
         G == VJP(m, Inputs(m, val), DY) IN
     /\ sens' = IF skip THEN sens
                ELSE IF Variant = "overwrite" THEN [sens EXCEPT ![m.ins[1].sig] = G[1]]
                ELSE AddAll(sens, m.ins, G, 1)
     /\ pc' = IF pc.i = 1 THEN [ph |-> "done", i |-> 0] ELSE [ph |-> "bwd", i |-> pc.i - 1]
     /\ UNCHANGED <<prog, slen, val, seeded, open>>
     /\ Log("Bwd", pc.i, ~skip)

StartReset ==
  /\ pc.ph = "done"
  /\ pc' = [ph |-> "reset", i |-> NMods]
  /\ UNCHANGED <<prog, slen, val, sens, seeded, open, hist>>

(* Network.reset: reverse order; Module.reset resets outputs, then inputs *)
Reset ==
  /\ pc.ph = "reset"
  /\ LET m == Mods(prog)[pc.i]
         s1 == ResetRefs(sens, [j \in 1..Len(m.outs) |-> [sig |-> m.outs[j], pos |-> <<>>]], 1) IN
     /\ sens' = ResetRefs(s1, m.ins, 1)
     /\ pc' = IF pc.i = 1 THEN [ph |-> "end", i |-> 0] ELSE [ph |-> "reset", i |-> pc.i - 1]
     /\ UNCHANGED <<prog, slen, val, seeded, open>>
     /\ Log("Reset", pc.i, TRUE)

ValidRefs == {r \in InRefs : ValidRef(r)}
Build ==
  /\ pc.ph = "build" /\ NMods < MaxMods
  /\ \E kind \in Kinds, r1 \in ValidRefs :
        \/ NIn(kind) = 1 /\ AddModule(kind, <<r1>>)
        \/ NIn(kind) = 2 /\ \E r2 \in ValidRefs : AddModule(kind, <<r1, r2>>)

Next ==
  \/ Build
  \/ Open \/ Close \/ StartRun \/ Fwd \/ Seed \/ Bwd \/ StartReset \/ Reset

Spec == Init /\ [][Next]_vars

-----------------------------------------------------------------------------
(* Declarative part: the total derivative by forward-mode tangents.                                 *)
(* Tan(src, e, k): tangent of every signal after the first k modules for a unit perturbation of     *)
(* entry e of source signal src.                                                                    *)
RECURSIVE Tan(_, _, _)
Tan(src, e, k) ==
  IF k = 0 THEN [s \in Sig |-> IF s > NSig THEN <<>>
                               ELSE IF s = src THEN Tup([i \in 1..slen[s] |-> IF i = e THEN 1 ELSE 0])
                               ELSE Zero(slen[s])]
  ELSE LET T == Tan(src, e, k - 1)
           m == Mods(prog)[k]
           TY == JVP(m, Inputs(m, val), Inputs(m, T)) IN
       [s \in Sig |-> IF \E j \in 1..Len(m.outs) : m.outs[j] = s
                      THEN TY[CHOOSE j \in 1..Len(m.outs) : m.outs[j] = s] ELSE T[s]]

RECURSIVE SumOver(_, _)
SumOver(S, T) == IF S = {} THEN 0 ELSE LET o == CHOOSE x \in S : TRUE IN Dot(SeedW(o), T[o]) + SumOver(S \ {o}, T)

TotalDerivative ==
  pc.ph = "done" =>
    \A src \in 1..NSrc : \A e \in 1..slen[src] :
       (IF sens[src] = <<>> THEN 0 ELSE sens[src][e]) = SumOver(seeded, Tan(src, e, NMods))

(* branches that received no seed contribute nothing: a module none of whose outputs is seeded or  *)
(* downstream-reachable from a seed is never invoked - implied by the skip rule; checked as: the    *)
(* sensitivity of a signal that no seeded signal depends on stays None                              *)
RECURSIVE DependsOn(_, _)
DependsOn(o, s) ==   \* signal o depends on signal s (o produced from s through modules)
  o = s \/ \E k \in 1..NMods : LET m == Mods(prog)[k] IN
              /\ \E j \in 1..Len(m.outs) : m.outs[j] = o
              /\ \E j \in 1..Len(m.ins) : DependsOn(m.ins[j].sig, s)
NoSeedNoSens ==
  pc.ph = "done" => \A s \in 1..NSig : (\A o \in seeded : ~DependsOn(o, s)) => sens[s] = <<>>

ResetLeavesNothing ==
  pc.ph = "end" => \A s \in 1..NSig : sens[s] = <<>> \/ \A i \in 1..Len(sens[s]) : sens[s][i] = 0

StatesUntouched ==   \* backpropagation and reset never change a state
  [][pc.ph \in {"seed", "bwd", "done", "reset"} => val' = val]_vars

Emit == (Record /\ pc.ph = "end") =>
          PrintT(<<"PROG", ToJson([prog |-> prog, slen |-> slen, seeded |-> seeded, steps |-> hist])>>)
=============================================================================
