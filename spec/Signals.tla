------------------------------ MODULE Signals ------------------------------
(***************************************************************************)
(* Signal / SignalSlice of pymoto/core_objects.py as a heap machine.       *)
(*                                                                         *)
(* Array objects have identity (heap cells); Signals hold references to    *)
(* them (st, se) and so does the caller (user).  The operational part      *)
(* mirrors the code statement by statement:                                *)
(*   Signal.add_sensitivity     core_objects.py:103  (deepcopy, then +=)   *)
(*   Signal.reset               core_objects.py:126                        *)
(*   SignalSlice.state get/set  core_objects.py:203                        *)
(*   SignalSlice.sensitivity    core_objects.py:221  (zeros of base shape) *)
(*   SignalSlice.add_sensitivity core_objects.py:254                       *)
(*   SignalSlice.reset          core_objects.py:282                        *)
(* The declarative part (action properties at the end) states C18 without  *)
(* reference to the mechanism.                                             *)
(***************************************************************************)
EXTENDS Integers, Sequences, FiniteSets, TLC, Json

CONSTANTS
  N,          \* number of entries of the (flattened) base array
  Scalar,     \* TRUE: the signals hold immutable Python scalars (N = 1, no slices)
  SliceDefs,  \* sequence of [par |-> 0 | index of an earlier slice, idx |-> positions in the parent]
  SVals,      \* multipliers of values written/added through slices: entry i gets c*i
  MaxObj,     \* heap cells
  Depth,      \* bound on the number of actions
  Record,     \* TRUE: keep the history (emitting runs); FALSE: hist stays empty (checking runs)
  Variant     \* "faithful" or the name of a negative variant (self-test)

VARIABLES heap, st, se, keep, user, legit, last, hist
vars == <<heap, st, se, keep, user, legit, last, hist>>
view == <<heap, st, se, keep, user, legit, Len(hist)>>

None == 0
Sigs == {"A", "B"}
Objs == 1..MaxObj
Slices == 1..Len(SliceDefs)
Zeros == [i \in 1..N |-> 0]
MutVal == 7

RECURSIVE Pos(_)
Tup(f) == SubSeq(f, 1, Len(f))    \* forces a concrete tuple (values kept outside the VIEW are not normalised by TLC)
Pos(k) == LET d == SliceDefs[k] IN
          IF d.par = 0 THEN d.idx ELSE Tup([i \in 1..Len(d.idx) |-> Pos(d.par)[d.idx[i]]])
PosSet(k) == {Pos(k)[i] : i \in 1..Len(Pos(k))}
SliceVals(k, c) == Tup([i \in 1..Len(Pos(k)) |-> c * i])
VecAdd(a, b) == [i \in 1..N |-> a[i] + b[i]]

Dead == [live |-> FALSE, v |-> Zeros]
Fresh(h) == CHOOSE o \in Objs : ~h[o].live /\ \A p \in Objs : p < o => h[p].live
HasFresh(h) == \E o \in Objs : ~h[o].live

(* objects no longer referenced by a signal or by the caller are collected, so that states that    *)
(* differ only in garbage coincide                                                                 *)
GC(h, s1, s2, u) == [o \in Objs |-> IF o \in u \/ \E s \in Sigs : s1[s] = o \/ s2[s] = o THEN h[o] ELSE Dead]

Cont(h, o) == IF o = None THEN "None" ELSE h[o].v
Gather(h, o, k) == IF o = None THEN "None" ELSE [i \in 1..Len(Pos(k)) |-> h[o].v[Pos(k)[i]]]

Obs(h, s1, s2, u) ==
  [A  |-> [state |-> Cont(h, s1["A"]), sens |-> Cont(h, s2["A"])],
   B  |-> [state |-> Cont(h, s1["B"]), sens |-> Cont(h, s2["B"])],
   sl |-> [k \in Slices |-> [state |-> Gather(h, s1["A"], k), sens |-> Gather(h, s2["A"], k)]],
   u  |-> [o \in 1..2 |-> h[o].v]]

Step(op, args) ==
  /\ last' = [op |-> op, args |-> args]
  /\ hist' = IF Record THEN Append(hist, [op |-> op, args |-> args, h |-> heap', s1 |-> st', s2 |-> se', u |-> user'])
                       ELSE hist    \* snapshots; the observation is computed when the behaviour is printed

-----------------------------------------------------------------------------
Init ==
  /\ \E k \in BOOLEAN :   \* Signal("A", sensitivity=zeros) sets keep_alloc
       /\ keep = [s \in Sigs |-> IF s = "A" THEN k ELSE FALSE]
       /\ heap = [o \in Objs |-> IF o = 1 THEN [live |-> TRUE, v |-> [i \in 1..N |-> i]]
                                 ELSE IF o = 2 THEN [live |-> TRUE, v |-> [i \in 1..N |-> 10 * i]]
                                 ELSE IF o = 3 /\ k THEN [live |-> TRUE, v |-> Zeros] ELSE Dead]
       /\ se = [s \in Sigs |-> IF s = "A" /\ k THEN 3 ELSE None]
  /\ st = [s \in Sigs |-> None]
  /\ user = {1, 2}
  /\ legit = [s \in Sigs |-> None]
  /\ last = [op |-> "Init", args |-> <<>>]
  /\ hist = <<>>

SetState(s, o) ==
  /\ o \in user
  /\ st' = [st EXCEPT ![s] = o]
  /\ heap' = GC(heap, st', se, user)
  /\ UNCHANGED <<se, keep, user, legit>>
  /\ Step("SetState", <<s, o>>)

SetSens(s, o) ==
  /\ o \in user \cup {None}
  /\ se' = [se EXCEPT ![s] = o]
  /\ legit' = [legit EXCEPT ![s] = o]
  /\ heap' = GC(heap, st, se', user)
  /\ UNCHANGED <<st, keep, user>>
  /\ Step("SetSens", <<s, o>>)

(* Signal.add_sensitivity *)
AddSens(s, o) ==
  /\ o \in user
  /\ HasFresh(heap)
  /\ IF se[s] = None \/ Variant = "add_always_copies"
       THEN LET n == IF Variant = "add_aliases" THEN o ELSE Fresh(heap) IN
            /\ heap' = IF Variant = "add_aliases" THEN heap
                       ELSE [heap EXCEPT ![n] = [live |-> TRUE, v |-> heap[o].v]]
            /\ se' = [se EXCEPT ![s] = n]
            /\ legit' = [legit EXCEPT ![s] = None]
       ELSE IF Scalar
         THEN LET n == Fresh(heap) IN     \* immutable: += rebinds to a new value
              /\ se' = [se EXCEPT ![s] = n]
              /\ heap' = GC([heap EXCEPT ![n] = [live |-> TRUE, v |-> VecAdd(heap[se[s]].v, heap[o].v)]], st, se', user)
              /\ legit' = [legit EXCEPT ![s] = None]
         ELSE /\ heap' = [heap EXCEPT ![se[s]].v = VecAdd(@, heap[o].v)]   \* in place
              /\ UNCHANGED <<se, legit>>
  /\ UNCHANGED <<st, keep, user>>
  /\ Step("AddSens", <<s, o>>)

(* Signal.reset(keep_alloc) ; kk \in {"d","T","F"} *)
Reset(s, kk) ==
  /\ LET k == IF kk = "d" THEN keep[s] ELSE kk = "T" IN
     IF se[s] = None THEN UNCHANGED <<heap, se, legit>>
     ELSE IF k
       THEN IF Scalar
              THEN LET n == Fresh(heap) IN     \* float: [...] fails, *= 0 rebinds
                   /\ HasFresh(heap)
                   /\ se' = [se EXCEPT ![s] = n]
                   /\ heap' = GC([heap EXCEPT ![n] = [live |-> TRUE, v |-> Zeros]], st, se', user)
                   /\ legit' = [legit EXCEPT ![s] = None]
              ELSE /\ heap' = [heap EXCEPT ![se[s]].v = IF Variant = "reset_keeps_values" THEN @ ELSE Zeros]
                   /\ UNCHANGED <<se, legit>>
       ELSE /\ se' = [se EXCEPT ![s] = None]
            /\ legit' = [legit EXCEPT ![s] = None]
            /\ heap' = GC(heap, st, se', user)
  /\ UNCHANGED <<st, keep, user>>
  /\ Step("Reset", <<s, kk>>)

(* Slice actions are stated over the sequence P of flat positions the slice selects in the base  *)
(* and the sequence vals of values handed over (same length); tag identifies the slice for the    *)
(* replay harness.  The bounded model instantiates P = Pos(k), vals = SliceVals(k, c).            *)
IdxOf(P, p) == CHOOSE i \in 1..Len(P) : P[i] = p
InP(P, p) == \E i \in 1..Len(P) : P[i] = p
WriteAt(v, P, vals, add) ==
  [p \in 1..N |-> IF InP(P, p) THEN (IF add THEN v[p] ELSE 0) + vals[IdxOf(P, p)] ELSE v[p]]

(* SignalSlice.state setter: base.state[slice] = values *)
SetStateSlice(P, vals, tag) ==
  /\ st["A"] # None
  /\ heap' = [heap EXCEPT ![st["A"]].v = WriteAt(@, P, vals, FALSE)]
  /\ UNCHANGED <<st, se, keep, user, legit>>
  /\ Step("SetStateSlice", <<P, vals, tag>>)

(* SignalSlice.sensitivity setter; Len(vals) = 0 stands for None *)
SetSensSlice(P, vals, tag) ==
  /\ LET vv == IF Len(vals) = 0 THEN [i \in 1..Len(P) |-> 0] ELSE vals IN
     IF se["A"] = None
       THEN IF Len(vals) = 0 THEN UNCHANGED <<heap, se>>
            ELSE /\ st["A"] # None                     \* zeros are made from the base *state*
                 /\ HasFresh(heap)
                 /\ LET n == Fresh(heap) IN
                    /\ se' = [se EXCEPT !["A"] = n]
                    /\ heap' = [heap EXCEPT ![n] = [live |-> TRUE,
                                   v |-> WriteAt(IF Variant = "slice_init_from_state" THEN heap[st["A"]].v ELSE Zeros, P, vv, FALSE)]]
       ELSE /\ heap' = [heap EXCEPT ![se["A"]].v = WriteAt(@, P, vv, FALSE)]
            /\ UNCHANGED se
  /\ UNCHANGED <<st, keep, user, legit>>
  /\ Step("SetSensSlice", <<P, vals, tag>>)

(* SignalSlice.add_sensitivity *)
AddSensSlice(P, vals, tag) ==
  /\ IF se["A"] = None
       THEN /\ st["A"] # None
            /\ HasFresh(heap)
            /\ LET n == Fresh(heap) IN
               /\ se' = [se EXCEPT !["A"] = n]
               /\ heap' = [heap EXCEPT ![n] = [live |-> TRUE, v |-> WriteAt(Zeros, P, vals, TRUE)]]
       ELSE /\ heap' = [heap EXCEPT ![se["A"]].v = WriteAt(@, P, vals, TRUE)]
            /\ UNCHANGED se
  /\ UNCHANGED <<st, keep, user, legit>>
  /\ Step("AddSensSlice", <<P, vals, tag>>)

(* SignalSlice.reset: if a sensitivity exists, assign None -> zero the entries *)
ResetSlice(P, tag) ==
  /\ IF se["A"] = None THEN UNCHANGED heap
     ELSE heap' = [heap EXCEPT ![se["A"]].v =
                     [p \in 1..N |-> IF InP(P, p) /\ Variant # "slice_reset_noop"
                                     THEN 0 ELSE IF Variant = "slice_reset_all" THEN 0 ELSE @[p]]]
  /\ UNCHANGED <<st, se, keep, user, legit>>
  /\ Step("ResetSlice", <<P, <<>>, tag>>)

(* the caller changes an array it still holds *)
UserMutate(o, i, val) ==
  /\ ~Scalar
  /\ o \in user
  /\ heap' = [heap EXCEPT ![o].v[i] = val]
  /\ UNCHANGED <<st, se, keep, user, legit>>
  /\ Step("UserMutate", <<o, i, val>>)

(* emitting runs: one closing step per complete behaviour, so that it is printed exactly once *)
Finish ==
  /\ Record /\ Len(hist) = Depth /\ last.op # "Finish"
  /\ last' = [op |-> "Finish", args |-> <<>>]
  /\ UNCHANGED <<heap, st, se, keep, user, legit, hist>>

Act ==
  /\ Len(hist) < Depth \/ ~Record
  /\ \/ \E s \in Sigs, o \in 1..2 : SetState(s, o)
     \/ \E s \in Sigs, o \in 0..2 : SetSens(s, o)
     \/ \E s \in Sigs, o \in 1..2 : AddSens(s, o)
     \/ \E s \in Sigs, kk \in {"d", "T", "F"} : Reset(s, kk)
     \/ \E k \in Slices, c \in SVals : SetStateSlice(Pos(k), SliceVals(k, c), <<k, c>>)
     \/ \E k \in Slices, c \in SVals : SetSensSlice(Pos(k), SliceVals(k, c), <<k, c>>)
     \/ \E k \in Slices : SetSensSlice(Pos(k), <<>>, <<k, 0>>)
     \/ \E k \in Slices, c \in SVals : AddSensSlice(Pos(k), SliceVals(k, c), <<k, c>>)
     \/ \E k \in Slices : ResetSlice(Pos(k), <<k, 0>>)
     \/ \E o \in 1..2, i \in 1..N : heap[o].v[i] # MutVal /\ UserMutate(o, i, MutVal)

Next == Finish \/ Act

Spec == Init /\ [][Next]_vars

DepthBound == TLCGet("level") <= Depth

-----------------------------------------------------------------------------
(* Declarative statement of C18 on the operational model                   *)

SensC(s) == Cont(heap, se[s])
StateC(s) == Cont(heap, st[s])

TypeOK ==
  /\ \A s \in Sigs : st[s] \in Objs \cup {None} /\ se[s] \in Objs \cup {None}
  /\ \A s \in Sigs : st[s] # None => heap[st[s]].live
  /\ \A s \in Sigs : se[s] # None => heap[se[s]].live

(* Only an explicit assignment of the sensitivity makes a signal share an array with the caller,   *)
(* with another signal's sensitivity, or with a state: add_sensitivity never aliases.              *)
NoAlias ==
  \A s \in Sigs : se[s] # None /\ se[s] # legit[s] =>
      /\ se[s] \notin user
      /\ \A t \in Sigs : st[t] # se[s]
      /\ \A t \in Sigs \ {s} : se[t] # se[s]

(* hence changing an array afterwards changes only what was explicitly assigned by reference *)
MutateFrame ==
  [][last'.op = "UserMutate" =>
       LET o == last'.args[1] IN
       /\ \A s \in Sigs : legit[s] # o => Cont(heap', se'[s]) = SensC(s)
       /\ \A s \in Sigs : st[s] # o => Cont(heap', st'[s]) = StateC(s)]_vars

AddExact ==
  [][last'.op = "AddSens" =>
       LET s == last'.args[1]  o == last'.args[2]
           old == IF se[s] = None THEN Zeros ELSE heap[se[s]].v IN
       /\ Cont(heap', se'[s]) = VecAdd(old, heap[o].v)
       /\ \A t \in Sigs \ {s} : (se[t] = None \/ se[t] # se[s]) => Cont(heap', se'[t]) = SensC(t)
       /\ \A t \in Sigs : (se[s] = None \/ st[t] # se[s]) => Cont(heap', st'[t]) = StateC(t)
       /\ \A u \in user : (u # se[s]) => heap'[u].v = heap[u].v]_vars

ResetClears ==
  [][last'.op = "Reset" =>
       LET s == last'.args[1] IN
       /\ se[s] = None => se'[s] = None
       /\ se'[s] # None => /\ Cont(heap', se'[s]) = Zeros
                           /\ ~Scalar => se'[s] = se[s]
                           /\ last'.args[2] = "T" \/ (last'.args[2] = "d" /\ keep[s])
       /\ (last'.args[2] = "F" \/ (last'.args[2] = "d" /\ ~keep[s])) => se'[s] = None
       /\ \A t \in Sigs : Cont(heap', st'[t]) = StateC(t) \/ (se[s] # None /\ st[t] = se[s])
       /\ \A t \in Sigs \ {s} : Cont(heap', se'[t]) = SensC(t) \/ (se[s] # None /\ se[t] = se[s])]_vars

SliceOps == {"SetStateSlice", "SetSensSlice", "AddSensSlice", "ResetSlice"}
EntryS(h, o, p) == IF o = None THEN 0 ELSE h[o].v[p]

(* a slice operation touches only its own entries of the base, and nothing of other signals *)
SliceFrame ==
  [][last'.op \in SliceOps =>
       LET P == last'.args[1] IN
       /\ st' = st
       /\ \A p \in 1..N : ~InP(P, p) =>
             /\ EntryS(heap', st'["A"], p) = EntryS(heap, st["A"], p) \/ (last'.op # "SetStateSlice" /\ st["A"] = se["A"] /\ se["A"] # None)
             /\ EntryS(heap', se'["A"], p) = EntryS(heap, se["A"], p) \/ (last'.op = "SetStateSlice" /\ st["A"] = se["A"])
       /\ (st["B"] = None \/ st["B"] \notin {st["A"], se["A"]}) => Cont(heap', st'["B"]) = StateC("B")
       /\ (se["B"] = None \/ se["B"] \notin {st["A"], se["A"]}) => Cont(heap', se'["B"]) = SensC("B")
       /\ se'["B"] = se["B"]]_vars

(* what a slice operation does to its own entries *)
SliceEffect ==
  [][last'.op \in SliceOps =>
       LET P == last'.args[1]  vals == last'.args[2] IN
       CASE last'.op = "SetStateSlice" ->
              \A i \in 1..Len(P) : heap'[st["A"]].v[P[i]] = vals[i]
         [] last'.op = "SetSensSlice" ->
              IF Len(vals) = 0
                THEN IF se["A"] = None THEN se'["A"] = None
                     ELSE \A i \in 1..Len(P) : heap'[se'["A"]].v[P[i]] = 0
                ELSE \A i \in 1..Len(P) : heap'[se'["A"]].v[P[i]] = vals[i]
         [] last'.op = "AddSensSlice" ->
              \A i \in 1..Len(P) : heap'[se'["A"]].v[P[i]] = EntryS(heap, se["A"], P[i]) + vals[i]
         [] last'.op = "ResetSlice" ->
              IF se["A"] = None THEN se'["A"] = None
              ELSE /\ se'["A"] = se["A"]
                   /\ \A i \in 1..Len(P) : heap'[se["A"]].v[P[i]] = 0]_vars

-----------------------------------------------------------------------------
(* emission of complete behaviours (paths / simulate configurations) *)
Emit == (Record /\ last.op = "Finish") => PrintT(<<"BEH", ToJson([keepA |-> keep["A"],
        steps |-> [i \in 1..Len(hist) |-> [op |-> hist[i].op, args |-> hist[i].args,
                                           obs |-> Obs(hist[i].h, hist[i].s1, hist[i].s2, hist[i].u)]]])>>)
=============================================================================
