import sys, time
from vf import tlc
from props import c14
t=time.time()
r = c14.run_cases([[2,2,0]], (5,))
print("exh 2x2", time.time()-t, r.generated, r.distinct, len(r.printed), r.violated)
t=time.time()
r = c14.run_cases([[3,2,0]], (5,))
print("exh 3x2", time.time()-t, r.generated, r.distinct, len(r.printed), r.violated)
