import time
from vf import tlc, core
from props import c02
t=time.time()
r = c02.emit(c02.consts(2, first=["Mul"]))
print("emit", time.time()-t, r.generated, len(r.printed), len(r.stdout))
chk = core.Check("C02")
t=time.time()
c02.check_cases(chk, [v[0] for tag, v in r.printed if tag=="PROG"][:2000])
print("replay", time.time()-t, chk.evaluations, len(chk.violations))
for v in chk.violations[:5]: print(v[:2])
t=time.time()
r = c02.emit(c02.consts(4, nest=True), 300, 5)
print("sim", time.time()-t, r.generated, len(r.printed), len(r.stdout))
c02.check_cases(chk, [v[0] for tag, v in r.printed if tag=="PROG"])
print("replay", time.time()-t, chk.evaluations, len(chk.violations))
for v in chk.violations[:5]: print(v[:2])
