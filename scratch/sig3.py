import sys, time
from vf import tlc, core
from props import c18
t=time.time()
name, r = c18.emit_behaviours("vec4", 2)
print("emit paths", time.time()-t, r.generated, len(r.printed), len(r.stdout))
t=time.time()
name, r2 = c18.emit_behaviours("vec4", 10, simulate=300, seed=3, svals=(1,3))
print("emit sim", time.time()-t, r2.generated, len(r2.printed), len(r2.stdout))
chk = core.Check("C18")
t=time.time()
c18.check_behaviours(chk, "vec4", [v[0] for tag, v in r.printed if tag=="BEH"][:500])
print("replay 500", time.time()-t, len(chk.violations))
print(chk.violations[:3])
