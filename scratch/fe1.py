import time
from vf import tlc
def Q(n,d=1): return (n,d)
def ke(nd): return tuple(tuple(((3*a+5*b+a*b) % 7) - 2 for b in range(nd)) for a in range(nd))
G2=[ ((Q(1),Q(0)),(Q(0),Q(0))), ((Q(0),Q(1)),(Q(0),Q(0))), ((Q(1,2),Q(-1)),(Q(1),Q(0))) ]
G3=[ ((Q(1),Q(0),Q(0)),(Q(0),Q(0),Q(0)),(Q(0),Q(0),Q(0))), ((Q(0),Q(1),Q(0)),(Q(0),Q(0),Q(1)),(Q(0),Q(0),Q(0))), ((Q(1,2),Q(-1),Q(0)),(Q(1),Q(0),Q(1)),(Q(0),Q(1,2),Q(1))) ]
consts=dict(Variant="faithful",
  AsmCases=tlc.SetOf([dict(g=dict(nx=2,ny=1,nz=0), ndof=2, Ke=ke(8), bcs=tlc.SetOf([set(), {0,3}]))]),
  ElemCases=tlc.SetOf([dict(dim=2, sz=(Q(1,2),Q(3,2),Q(2)), mode="stress", E=Q(2), nu=Q(1,4)), dict(dim=3, sz=(Q(1,2),Q(3,2),Q(2)), mode="3d", E=Q(1), nu=Q(1,3))]),
  GradSets=[set(), set(G2), set(G3)])
class S(list): pass
def fix(v):
    return v
name, mod, cfg = tlc.mc("FECases", consts, invariants=["C08asm","ElemOK","EmitAsm","EmitElem"])
t=time.time()
r = tlc.run(name, cfg, extra_modules={name: mod}, workers=1, expect_violation=True)
print(time.time()-t, r.generated, r.distinct, r.violated, [p[0] for p in r.printed]); print(r.error); print(r.stdout[-3000:] if not r.ok else "")
