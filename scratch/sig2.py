import sys
from vf import tlc, core
from props import c18
chk = core.Check("C18")
name = sys.argv[1]; d = int(sys.argv[2])
try:
    r = c18.model_check(chk, name, d)
    print(r.generated, r.distinct, r.wall)
except Exception as e:
    print(str(e)[:3000])
