import time
from vf import tlc, core
from props import c14
chk = core.Check("C14")
t=time.time(); r=c14.check_only(chk, [[3,3,0]], (5,)); print("3x3", time.time()-t, r.generated, r.distinct)
t=time.time(); r=c14.check_only(chk, [[2,2,2]], (5,9)); print("2x2x2", time.time()-t, r.generated, r.distinct)
