import time
from vf import tlc
from props import c05
for k in ("curated","2x2real"):
    name, mod, cfg = tlc.mc("Solvers", dict(Mats=tlc.Raw(c05.mats_expr(k)), Variant="faithful"), invariants=["LinSolveAdjointOK","InverseAdjointOK","EmitAdj"], extra_defs=c05.EXTRA)
    t=time.time()
    r = tlc.run(name, cfg, extra_modules={name: mod}, workers=1, expect_violation=True)
    print(k, time.time()-t, r.generated, r.violated, len(r.printed)); print(r.error); print(r.stdout[-1500:] if not r.ok else "")
