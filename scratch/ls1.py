import time
from vf import tlc
from props import c05
name, mod, cfg = tlc.mc("Solvers", dict(Mats=tlc.Raw(c05.mats_expr("curated")), Variant="faithful"), invariants=["LinSysOK","SchurOK","EmitLS"], extra_defs=c05.EXTRA)
t=time.time()
r = tlc.run(name, cfg, extra_modules={name: mod}, workers=1, expect_violation=True)
print(time.time()-t, r.generated, r.violated, len(r.printed)); print(r.error); print(r.stdout[-2000:] if not r.ok else "")
import json; print(json.dumps(r.printed[0][1][0])[:1500])
