import sys, time, json
from vf import tlc
from props import c14
g=json.loads(sys.argv[1]); ns=tuple(json.loads(sys.argv[2]))
name, mod, cfg = tlc.mc("Overhang", c14.consts(g, ns), invariants=["C14", "Emit"])
try:
    t=time.time()
    r = tlc.run(name, cfg, extra_modules={name: mod}, workers=1, timeout=60)
    print(g, ns, r.generated, r.violated, round(time.time()-t,1))
except Exception as e:
    print(g, ns, str(e)[:300])
