import sys
from vf import tlc
variant = sys.argv[1] if len(sys.argv) > 1 else "faithful"
depth = int(sys.argv[2]) if len(sys.argv) > 2 else 4
props = sys.argv[3].split(",") if len(sys.argv) > 3 else ["ModeSound","Forget","ReuseModuloRealSkip","NoNeedlessReuse"]
def V(*p): return [list(x) for x in p]
E1=[(1,0),(0,0),(0,0)]; E2=[(0,0),(1,0),(0,0)]; E3=[(0,0),(0,0),(1,0)]
POOL=[dict(cols=[V(*E1)],cplx=False), dict(cols=[V(*E2)],cplx=False), dict(cols=[V((1,0),(1,0),(0,0))],cplx=False),
      dict(cols=[V((2,0),(0,0),(0,0))],cplx=False), dict(cols=[V((0,1),(0,0),(0,0))],cplx=True),
      dict(cols=[V((1,0),(0,1),(0,0))],cplx=True), dict(cols=[V((1,0),(0,-1),(0,0))],cplx=True),
      dict(cols=[V((0,0),(0,0),(0,0))],cplx=False),
      dict(cols=[V(*E1),V(*E2),V((1,0),(1,0),(0,0))],cplx=False),
      dict(cols=[V((1,0),(0,1),(0,0)),V(*E3)],cplx=True)]
consts = dict(X0s={False}, Classes={"rs","rg","cs","ch","cg"}, Pool=POOL, Givens={"none","sym","herm"}, Depth=depth, Record=False, Variant=variant)
name, mod, cfg = tlc.mc("LDAS", consts, invariants=["ForgetInv","ForgetInvH","DbRank"], properties=props, constraint="DepthBound", view="view")
import os; os.makedirs("/tmp/ldasdbg", exist_ok=True); open("/tmp/ldasdbg/"+name+".tla","w").write(mod); open("/tmp/ldasdbg/"+name+".cfg","w").write(cfg); r = tlc.run(name, cfg, extra_modules={name: mod}, expect_violation=True)
print(r.generated, r.distinct, r.depth, r.violated, r.wall)
print(r.error)
print(r.stdout[-4500:] if not r.ok else "")
