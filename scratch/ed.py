import time
from vf import tlc
from props import c11
cs=c11.cases(False)
name, mod, cfg = c11.model(cs, False, der=True)
t=time.time()
r = tlc.run(name, cfg, extra_modules={name: mod}, workers=1, expect_violation=True)
print(time.time()-t, r.generated, r.violated, len(r.printed)); print(r.error); print(r.stdout[-1500:] if not r.ok else "")
