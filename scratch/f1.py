import time, itertools
from vf import tlc
M=["symmetric","edge","wrap","c2"]
ker=[[[1],[2],[4]],[[3],[5],[7]],[[2],[1],[6]]]   # 3x3x1 asymmetric
consts=dict(Grids={(3,2,1)}, Kernels={tuple(tuple(tuple(c) for c in b) for b in ker)}, ModeSets={(a,b,c,d,"symmetric","symmetric") for a in M for b in M for c in M for d in M}, Variant="faithful")
name, mod, cfg = tlc.mc("Filt", consts, invariants=["C09conv","Emit"], extra_defs="PadOK == PadAxisSound")
cfg += "INVARIANT PadOK\n"
t=time.time()
r = tlc.run(name, cfg, extra_modules={name: mod}, workers=1, expect_violation=True)
print(time.time()-t, r.generated, r.distinct, r.violated, len(r.printed)); print(r.error); print(r.stdout[-2500:] if not r.ok else "")
