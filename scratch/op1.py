import time
from vf import tlc
Q=lambda n,d=1:(n,d)
grid={Q(0),Q(1,4),Q(1,2),Q(1)}
offs={Q(1,2),Q(3,5),Q(7,20),Q(1,100),Q(10),Q(9)}
consts=dict(XGrid=grid, Bounds={(Q(0),Q(1)),(Q(-2),Q(3)),(Q(1,10),Q(1,5))}, Offsets=offs, Albefas={Q(1,10),Q(1,2),Q(9,10)}, Moves={Q(1,10),Q(1,2),Q(1),Q(2)},
            AsyBound=Q(10), AsyIncr=Q(6,5), AsyDecr=Q(7,10), Variant="faithful")
for variant in ("faithful","no_xmin"):
    consts["Variant"]=variant
    name, mod, cfg = tlc.mc("Optim", consts, invariants=["Enclosure","OCStep"], extra_defs="SplitOK == SplitRoundTrip")
    cfg += "INVARIANT SplitOK\n"
    t=time.time()
    r = tlc.run(name, cfg, extra_modules={name: mod}, expect_violation=True)
    print(variant, time.time()-t, r.generated, r.distinct, r.violated); print(r.error)
