import sys
from vf import tlc
variant = sys.argv[1] if len(sys.argv) > 1 else "faithful"
depth = int(sys.argv[2]) if len(sys.argv) > 2 else 4
consts = dict(N=4, Scalar=False, SliceDefs=[dict(par=0, idx=[2,3]), dict(par=0, idx=[4,1]), dict(par=1, idx=[2])], SVals={1,3}, MaxObj=6, Depth=depth, Record=False, Variant=variant)
name, mod, cfg = tlc.mc("Signals", consts, invariants=["TypeOK","NoAlias"], properties=["MutateFrame","AddExact","ResetClears","SliceFrame","SliceEffect"], constraint="DepthBound", view="view")
r = tlc.run(name, cfg, extra_modules={name: mod}, expect_violation=True)
print(r.generated, r.distinct, r.depth, r.violated, r.wall)
print(r.error)
print(r.stdout[-3500:] if not r.ok else "")
