import time
from vf import tlc
from props import c14
name, mod, cfg = tlc.mc("Overhang", c14.consts([[2,2,0]], (5,)), invariants=["EmitJac"])
t=time.time()
r = tlc.run(name, cfg, extra_modules={name: mod}, workers=1, expect_violation=True)
print(time.time()-t, r.generated, r.violated, len(r.printed)); print(r.error); print(r.stdout[-1500:] if not r.ok else "")
import json; print(json.dumps([p for p in r.printed if p[0]=="JAC"][5][1][0])[:800])
