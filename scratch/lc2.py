import sys
from vf import tlc
depth = int(sys.argv[1])
consts = dict(NDesigns=3, NOut=2, Depth=depth, Record=True, Variant="faithful")
name, mod, cfg = tlc.mc("Lifecycle", consts, spec="SpecS", invariants=["Emit"])
r = tlc.run(name, cfg, extra_modules={name: mod}, workers=1)
print(depth, r.generated, len(r.printed), r.wall)
