from vf import core
from props import c02
chk = core.Check("C02")
c02.library_network_traces(chk, False)
print(chk.traces, chk.violations[:3])
