from vf import core
from props import c02
chk = core.Check("C02")
c02.module_init_contract(chk)
print(chk.evaluations, len(chk.violations)); 
for v in chk.violations[:6]: print(v[1][:300])
