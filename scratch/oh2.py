import sys, time
from vf import tlc
from props import c14
t=time.time()
r = c14.run_cases([[2,2,1],[1,2,2]], (5,9))
print("exh 3d", time.time()-t, r.generated, r.distinct, len(r.printed), r.violated)
t=time.time()
r = c14.run_cases([[3,3,0]], (5,), 20, 3)
print("sim", time.time()-t, r.generated, r.distinct, len(r.printed), r.violated)
