import sys
from vf import tlc
from props import c15
d=int(sys.argv[1]) if len(sys.argv)>1 else 3
name, mod, cfg = tlc.mc("DyadAlg", c15.consts(d, False), invariants=["ShapeClosure", "TypeSound"], properties=["Frame"], constraint="DepthBound")
r = tlc.run(name, cfg, extra_modules={name: mod}, expect_violation=True)
print(r.generated, r.distinct, r.violated, r.wall)
i = r.stdout.find("Fingerprint Stack")
print(r.stdout[i:i+3000] if i>=0 else r.stdout[-1500:])
