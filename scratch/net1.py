import sys
from vf import tlc
variant = sys.argv[1] if len(sys.argv) > 1 else "faithful"
nm = int(sys.argv[2]) if len(sys.argv) > 2 else 2
nest = (sys.argv[3] == "1") if len(sys.argv) > 3 else False
consts = dict(MaxMods=nm, Kinds={"Sc","Lin","Mul","Split","Cat","Dot"}, SliceKinds={"none","head","fancy"}, AllowNest=nest, Record=False, Variant=variant)
name, mod, cfg = tlc.mc("Network", consts, invariants=["TotalDerivative","NoSeedNoSens","ResetLeavesNothing"], properties=["StatesUntouched"])
r = tlc.run(name, cfg, extra_modules={name: mod}, expect_violation=True)
print(r.generated, r.distinct, r.depth, r.violated, r.wall)
print(r.error)
print(r.stdout[-3500:] if not r.ok else "")
