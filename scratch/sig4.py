import sys, time
from vf import tlc, core
from props import c18
name, r2 = c18.emit_behaviours("scalar", 5, simulate=20, seed=3, svals=(1,3))
lines = r2.stdout.splitlines()
print("\n".join(l[:200] for l in lines[:25]))
print("...")
print("\n".join(l[:200] for l in lines[-12:]))
