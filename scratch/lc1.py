import sys
from vf import tlc
variant = sys.argv[1] if len(sys.argv) > 1 else "faithful"
depth = int(sys.argv[2]) if len(sys.argv) > 2 else 8
consts = dict(NDesigns=3, NOut=2, Depth=depth, Record=False, Variant=variant)
name, mod, cfg = tlc.mc("Lifecycle", consts, invariants=["NoStale","StatesCurrent"], properties=["ResetClean","NoSeedNoChange"], constraint="DepthBound")
r = tlc.run(name, cfg, extra_modules={name: mod}, expect_violation=True)
print(r.generated, r.distinct, r.depth, r.violated, r.wall)
print(r.error)
